(* C35/Run.v — line driver.
     tree  <req> <req> ...    ->  the resolved units  crate@K[features|optional deps];...   (compared with `cargo tree`)
     build <req> <req> ...    ->  ok / fail prediction (compared with `cargo check`), spec verdict, known class
   <req> = crate:1|0:feat,feat,...   (1 = default-features on) *)
From Coq Require Import List Bool.
Import ListNotations.
From ZV Require Import Base.Bytes C35.Types C35.Unify C35.Generated C35.Spec.

Definition colon : byte := ":"%byte.
Definition comma : byte := ","%byte.

Definition parse_req (wd : bytes) : option req :=
  match split_on colon wd with
  | [c; d; fs] =>
      let feats := filter (fun f => negb (lbeq f [])) (split_on comma fs) in
      if lbeq d (B "1") then Some {| q_crate := c; q_default := true; q_feats := feats |}
      else if lbeq d (B "0") then Some {| q_crate := c; q_default := false; q_feats := feats |}
      else None
  | _ => None
  end.

Fixpoint parse_reqs (ws : list bytes) : option (list req) :=
  match ws with
  | [] => Some []
  | x :: r => match parse_req x, parse_reqs r with Some q, Some qs => Some (q :: qs) | _, _ => None end
  end.

Definition kind_tok (k : kind) : bytes := match k with KT => B "T" | KH => B "H" end.

Definition feats_of (S : list fact) (c : bytes) (k : kind) : list bytes :=
  flat_map (fun x => match x with
                     | FV c' k' (FvFeat f) => if lbeq c c' && kind_eqb k k' then [f] else []
                     | _ => [] end) S.
Definition odeps_of (S : list fact) (c : bytes) (k : kind) : list bytes :=
  flat_map (fun x => match x with
                     | FV c' k' (FvDep d) => if lbeq c c' && kind_eqb k k' then [d] else []
                     | _ => [] end) S.

Definition show_unit (S : list fact) (u : bytes * kind) : bytes :=
  fst u ++ B "@" ++ kind_tok (snd u) ++ B "[" ++ join (B ",") (feats_of S (fst u) (snd u)) ++ B "|"
        ++ join (B ",") (odeps_of S (fst u) (snd u)) ++ B "]".

Definition class_of (S : list fact) : bytes :=
  if forallb (unit_coherent_mod S) (units crates S) then
    if violated S is_blocking_split then B "blocking_split"
    else dash
  else dash.

Definition run_case (line : bytes) : outp :=
  match words line with
  | mode :: rest =>
      match parse_reqs rest with
      | Some sel =>
          if negb (wf_sel crates sel) then bad_case else
          match resolve_sel crates sel with
          | Some R =>
              if lbeq mode (B "tree") then
                {| o_model := join (B ";") (map (show_unit R) (units crates R)); o_spec := dash; o_class := dash |}
              else if lbeq mode (B "build") then
                {| o_model := if coherent R && supported R then B "ok" else B "fail";
                   o_spec := if supported R then B "ok" else dash;
                   o_class := class_of R |}
              else bad_case
          | None => {| o_model := B "OUT-OF-FUEL"; o_spec := dash; o_class := dash |}
          end
      | None => bad_case
      end
  | [] => bad_case
  end.

Definition run (line : bytes) : bytes := render (run_case line).
