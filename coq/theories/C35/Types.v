(* C35/Types.v — the data the translator tools/gen_features.py emits (C35/Generated.v): the cargo feature graph of the
   workspace, the coherence rules read off the sources, and the compile_error! feature guards. No proofs here. *)
From Coq Require Import List.
Import ListNotations.
From ZV Require Import Base.Bytes.

(* dependency tables of a manifest: [dependencies] / [build-dependencies] / [dev-dependencies] *)
Inductive dkind := DNormal | DBuild | DDev.

(* a value in a [features] list (cargo's FeatureValue):  "f"  |  "dep:d"  |  "d/f"  |  "d?/f" (weak = true) *)
Inductive fval :=
| FvFeat (f : bytes)
| FvDep (d : bytes)
| FvDepFeat (d f : bytes) (weak : bool).

Record dep := {
  d_name : bytes;          (* name in the manifest *)
  d_pkg : bytes;           (* package name (differs from d_name only with `package = ".."`) *)
  d_kind : dkind;
  d_optional : bool;
  d_default : bool;        (* default-features (after workspace inheritance) *)
  d_feats : list fval;     (* features = [..] (after workspace inheritance) *)
  d_platform_ok : bool     (* no [target.'cfg(..)'] condition, or one that holds on x86_64 linux *)
}.

Record crate := {
  c_name : bytes;
  c_proc_macro : bool;     (* [lib] proc-macro = true: always built for the host *)
  c_lib : bool;            (* has a library target (can be a dependency of a downstream crate) *)
  c_feats : list (bytes * list fval);   (* [features], plus cargo's implicit features of optional dependencies *)
  c_deps : list dep
}.

(* When crate r_unit is compiled in build kind k, and the crate fst r_if — as r_unit sees it: a proc-macro crate in its
   host build, any other crate in kind k — has feature snd r_if on ("" = is compiled at all), then the crate fst r_then
   must have feature snd r_then on. *)
Record rule := {
  r_unit : bytes;
  r_if : bytes * bytes;
  r_then : bytes * bytes;
  r_what : bytes
}.
