(* C29/Replies.v — conservation of instructions: what is in the log plus what the programs (running, spawned later,
   or not yet received) will still emit is constant.  Consequence: no reply is ever sent twice, and when every task
   has finished every call of the burst has got exactly one reply. *)
From ZV Require Import Base.Bytes C29.Model C29.Spec C29.Steps C29.Order.

Fixpoint tsum (F : nat -> nat) (n : nat) : nat := match n with 0 => 0 | S k => tsum F k + F k end.

Lemma tsum_ext n F G : (forall u, u < n -> F u = G u) -> tsum F n = tsum G n.
Proof. induction n as [|n IH]; intros H; cbn; [reflexivity|]. rewrite IH by (intros; apply H; lia). rewrite H by lia. reflexivity. Qed.

Lemma tsum_upd n F G t : t < n -> (forall u, u <> t -> G u = F u) -> tsum G n + F t = tsum F n + G t.
Proof.
  induction n as [|n IH]; intros Hlt Hoth; [lia|]. cbn. destruct (Nat.eq_dec t n) as [->|Hne].
  - rewrite (tsum_ext n G F) by (intros u Hu; apply Hoth; lia). lia.
  - rewrite (Hoth n) by lia. assert (t < n) by lia. specialize (IH H Hoth). lia.
Qed.

Lemma tsum_zero n F : (forall u, F u = 0) -> tsum F n = 0.
Proof. intros H. induction n; cbn; [reflexivity|]. rewrite IHn, H. reflexivity. Qed.

Section Total.
  Variable wt : instr -> nat.

  Definition wsum (p : list instr) : nat := list_sum (map wt p).
  Definition wdeep (i : instr) : nat := match i with ISpawn c => wt i + wsum (body c) | _ => wt i end.
  Definition W (p : list instr) : nat := list_sum (map wdeep p).

  Lemma W_app p q : W (p ++ q) = W p + W q.
  Proof. unfold W. now rewrite map_app, list_sum_app. Qed.

  Lemma W_flat p : forallb flat_instr p = true -> W p = wsum p.
  Proof.
    unfold W, wsum. induction p as [|i p IH]; [reflexivity|]. intros H. cbn [forallb] in H.
    apply andb_prop in H. destruct H as [Hi Hp]. specialize (IH Hp). simpl. rewrite IH.
    destruct i; cbn in Hi; try discriminate; reflexivity.
  Qed.

  Definition pendW (s : sys) : nat := list_sum (map (fun c => W (dispatch c)) (inbox s ++ future s)).
  Definition total (s : sys) : nat := tsum (fun t => W (prog (tasks s t))) (ntasks s) + pendW s.

  (* b = true: the head instruction was consumed;  b = false: it stays (write lock: mutex taken, waiting for the readers;
     receive: the code of the call is put in front of it) *)
  Lemma total_step s t s' : wf s -> step (LTask t) s = Some s' ->
    exists i r (b : bool), prog (tasks s t) = i :: r /\
      total s' + (if b then wt i else 0) = total s /\
      log s' = log s ++ (if b then tev [i] else []) /\ (b = false -> tev [i] = []).
  Proof.
    intros Hwf Hst.
    assert (Hlt : t < ntasks s).
    { apply wf_live; [assumption|]. unfold step in Hst. destruct (prog (tasks s t)); [discriminate|congruence]. }
    apply step_tstep in Hst.
    assert (Hpop : forall i r tk' lk lg, prog (tasks s t) = i :: r -> prog tk' = r ->
               (forall c, i <> ISpawn c) ->
               total {| tasks := updt (tasks s) t tk'; ntasks := ntasks s; locks := lk; future := future s; inbox := inbox s; log := lg |}
               + wt i = total s).
    { intros i r tk' lk lg Hp Hk Hns. unfold total, pendW. cbn [tasks ntasks inbox future].
      pose proof (tsum_upd (ntasks s) (fun u => W (prog (tasks s u))) (fun u => W (prog (updt (tasks s) t tk' u))) t Hlt) as HU.
      cbn beta in HU. rewrite updt_same, Hk, Hp in HU.
      assert (Hw : W (i :: r) = wt i + W r) by (destruct i; try reflexivity; exfalso; eapply Hns; reflexivity).
      rewrite Hw in HU. specialize (HU ltac:(intros u Hu; now rewrite updt_other)). lia. }
    inversion Hst; subst; rename H into Hp.
    - exists (IRead l), r, true. split; [exact Hp|split; [eapply (Hpop _ _ _ _ _ Hp); [reflexivity|discriminate]|split; [cbn; now rewrite ?app_nil_r|discriminate]]].
    - exists (IRUnlock l), r, true. split; [exact Hp|split; [eapply (Hpop _ _ _ _ _ Hp); [reflexivity|discriminate]|split; [cbn; now rewrite ?app_nil_r|discriminate]]].
    - exists (IWrite l), r, false. split; [exact Hp|]. split; [|split; [cbn; now rewrite app_nil_r|reflexivity]].
      unfold total, pendW. cbn [tasks ntasks inbox future set_task_lock]. rewrite Nat.add_0_r. f_equal.
      apply tsum_ext. intros u _. unfold updt. destruct (Nat.eqb_spec u t); [now subst|reflexivity].
    - exists (IWrite l), r, true. split; [exact Hp|split; [eapply (Hpop _ _ _ _ _ Hp); [reflexivity|discriminate]|split; [cbn; now rewrite ?app_nil_r|discriminate]]].
    - exists (IWUnlock l), r, true. split; [exact Hp|split; [eapply (Hpop _ _ _ _ _ Hp); [reflexivity|discriminate]|split; [cbn; now rewrite ?app_nil_r|discriminate]]].
    - exists ITau, r, true. split; [exact Hp|split; [eapply (Hpop _ _ _ _ _ Hp); [reflexivity|discriminate]|split; [cbn; now rewrite ?app_nil_r|discriminate]]].
    - exists (IEv e), r, true.
      split; [exact Hp|split; [eapply (Hpop _ _ _ _ _ Hp); [reflexivity|discriminate]|split; [reflexivity|discriminate]]].
    - exists (ISpawn c), r, true. split; [exact Hp|]. split; [|split; [cbn; now rewrite app_nil_r|discriminate]].
      unfold total, pendW. cbn [tasks ntasks inbox future tsum].
      rewrite updt_same. cbn [prog]. rewrite (W_flat (body c) (flat_body c)).
      rewrite (tsum_ext (ntasks s) _ (fun u => W (prog (updt (tasks s) t {| prog := r; held := held (tasks s t) |} u))))
        by (intros u Hu; rewrite updt_other by lia; reflexivity).
      pose proof (tsum_upd (ntasks s) (fun u => W (prog (tasks s u)))
                    (fun u => W (prog (updt (tasks s) t {| prog := r; held := held (tasks s t) |} u))) t Hlt) as HU.
      cbn beta in HU. rewrite updt_same, Hp in HU. cbn [prog] in HU.
      assert (Hw : W (ISpawn c :: r) = wt (ISpawn c) + wsum (body c) + W r) by reflexivity.
      rewrite Hw in HU. specialize (HU ltac:(intros u Hu; now rewrite updt_other)). lia.
    - exists IRecv, r, false. split; [exact Hp|]. split; [|split; [cbn; now rewrite app_nil_r|reflexivity]].
      rename H0 into Hib. unfold total, pendW. cbn [tasks ntasks inbox future]. rewrite Hib. cbn [app map list_sum].
      pose proof (tsum_upd (ntasks s) (fun u => W (prog (tasks s u)))
                    (fun u => W (prog (updt (tasks s) t {| prog := dispatch c ++ IRecv :: r; held := held (tasks s t) |} u))) t Hlt) as HU.
      cbn beta in HU. rewrite updt_same, Hp in HU. cbn [prog] in HU. rewrite W_app in HU.
      specialize (HU ltac:(intros u Hu; now rewrite updt_other)).
      change (list_sum (W (dispatch c) :: ?l)) with (W (dispatch c) + list_sum l). lia.
    - exists IRecv, r, true. split; [exact Hp|split; [eapply (Hpop _ _ _ _ _ Hp); [reflexivity|discriminate]|split; [cbn; now rewrite ?app_nil_r|discriminate]]].
  Qed.

  Lemma total_arrive s s' : step LArrive s = Some s' -> total s' = total s /\ log s' = log s.
  Proof.
    intros H. apply step_arrive in H. destruct H as [c [r [Hf ->]]]. unfold total, pendW.
    cbn [tasks ntasks inbox future log]. rewrite Hf. rewrite <- app_assoc. cbn [app]. auto.
  Qed.

  Lemma total_done s : all_done s -> total s = 0.
  Proof.
    intros [Hd [Hf Hi]]. unfold total, pendW. rewrite Hf, Hi. cbn. rewrite Nat.add_0_r.
    apply tsum_zero. intros u. now rewrite Hd.
  Qed.

  Lemma total_init calls : total (init calls) = wt IRecv + list_sum (map (fun c => W (dispatch c)) calls).
  Proof. unfold total, pendW. cbn [init tasks ntasks inbox future tsum app]. cbn. lia. Qed.
End Total.

(* ---- counting one event ---- *)
Lemma count_ev_app e a b : count_ev e (a ++ b) = count_ev e a + count_ev e b.
Proof. induction a as [|x a IH]; cbn; [reflexivity|]. rewrite IH. lia. Qed.

Definition ind (e : ev) (i : instr) : nat := count_ev e (tev [i]).

Lemma count_conserved calls e tr s : reach calls tr s ->
  count_ev e (log s) + total (ind e) s = total (ind e) (init calls).
Proof.
  intros Hr. assert (H : wf s /\ count_ev e (log s) + total (ind e) s = total (ind e) (init calls)); [|tauto].
  revert tr s Hr. unfold reach. apply reach_ind.
  - split; [apply wf_init|reflexivity].
  - intros s lb s' [Hw Hc] Hst. split; [eapply wf_step; eauto|]. destruct lb as [t|].
    + destruct (total_step (ind e) s t s' Hw Hst) as [i [r [b [Hp [Ht [Hl Hb]]]]]].
      rewrite Hl, count_ev_app. destruct b; [change (ind e i) with (count_ev e (tev [i])) in Ht; lia|]. cbn [count_ev]. lia.
    + destruct (total_arrive (ind e) s s' Hst) as [Ht Hl]. rewrite Ht, Hl. exact Hc.
Qed.

(* how many replies the code of a burst contains for call id n: one per call carrying that id *)
Lemma wsum_app wt p q : wsum wt (p ++ q) = wsum wt p + wsum wt q.
Proof. unfold wsum. now rewrite map_app, list_sum_app. Qed.

Lemma wsum_ind_tev e p : wsum (ind e) p = count_ev e (tev p).
Proof.
  unfold wsum. induction p as [|i p IH]; [reflexivity|].
  change (list_sum (map (ind e) (i :: p))) with (ind e i + list_sum (map (ind e) p)). rewrite IH.
  unfold ind. destruct i; cbn; try reflexivity. lia.
Qed.

Lemma reply_in_handler n c : count_ev (EvR n) (tev (handler c)) = 0.
Proof.
  rewrite tev_handler. rewrite !count_ev_app. cbn. unfold op_events.
  induction (seq 0 (length (c_script c))) as [|x l IH]; cbn; lia.
Qed.

Definition rwt (c : call) : nat := if wants_reply c then 1 else 0.

Lemma replies_in_body n c : count_ev (EvR n) (tev (body c)) = if Nat.eqb (c_id c) n then rwt c else 0.
Proof.
  pose proof (reply_in_handler n c) as Hh.
  unfold body, rwt, wants_reply. destruct (c_kind c); destruct (c_noreply c); rewrite ?tev_app; cbn [tev app negb];
    rewrite ?count_ev_app, ?Hh; cbn [count_ev ev_eqb]; destruct (Nat.eqb (c_id c) n); lia.
Qed.

Lemma replies_in_dispatch n c : W (ind (EvR n)) (dispatch c) = if Nat.eqb (c_id c) n then rwt c else 0.
Proof.
  unfold dispatch. rewrite W_app.
  change (W (ind (EvR n)) [IRead L_root; IRUnlock L_root]) with 0. cbn [Nat.add].
  assert (Hb : W (ind (EvR n)) (body c) = if Nat.eqb (c_id c) n then rwt c else 0)
    by (rewrite (W_flat _ _ (flat_body c)), wsum_ind_tev; apply replies_in_body).
  assert (Hs : W (ind (EvR n)) [ISpawn c] = if Nat.eqb (c_id c) n then rwt c else 0).
  { change (W (ind (EvR n)) [ISpawn c]) with (0 + wsum (ind (EvR n)) (body c) + 0).
    rewrite wsum_ind_tev, replies_in_body. lia. }
  destruct (c_kind c); try destruct (c_spawn c); assumption.
Qed.

Definition ids_eq (n : nat) (calls : list call) : nat := list_sum (map (fun c => if Nat.eqb (c_id c) n then rwt c else 0) calls).

Lemma total_replies_init n calls : total (ind (EvR n)) (init calls) = ids_eq n calls.
Proof.
  rewrite total_init. change (ind (EvR n) IRecv) with 0. cbn [Nat.add]. unfold ids_eq. f_equal.
  induction calls as [|c l IH]; [reflexivity|]. cbn [map]. now rewrite replies_in_dispatch, IH.
Qed.

Lemma list_sum_cons a l : list_sum (a :: l) = a + list_sum l.
Proof. reflexivity. Qed.

Lemma ids_eq_absent n calls : ~ In n (map c_id calls) -> ids_eq n calls = 0.
Proof.
  unfold ids_eq. induction calls as [|c l IH]; [reflexivity|]. cbn [map]. intros H. rewrite list_sum_cons, IH by (cbn in H; tauto).
  destruct (Nat.eqb_spec (c_id c) n); [exfalso; apply H; now left|reflexivity].
Qed.

Lemma ids_eq_nodup calls c : NoDup (map c_id calls) -> In c calls -> ids_eq (c_id c) calls = rwt c.
Proof.
  unfold ids_eq. induction calls as [|x l IH]; [intros _ []|]. cbn [map]. intros Hnd Hin.
  inversion Hnd as [|? ? Hx Hl]; subst. rewrite list_sum_cons. destruct Hin as [->|Hin].
  - rewrite Nat.eqb_refl. fold (ids_eq (c_id c) l). rewrite ids_eq_absent by assumption. lia.
  - destruct (Nat.eqb_spec (c_id x) (c_id c)) as [E|E]; [exfalso; apply Hx; rewrite E; now apply in_map|].
    rewrite IH by assumption. lia.
Qed.

Lemma ids_eq_le n calls : NoDup (map c_id calls) -> ids_eq n calls <= if memn n (map c_id calls) then 1 else 0.
Proof.
  intros Hnd. destruct (memn n (map c_id calls)) eqn:Hm.
  - apply memn_in in Hm. apply in_map_iff in Hm. destruct Hm as [c [<- Hc]]. rewrite ids_eq_nodup by assumption.
    unfold rwt. destruct (wants_reply c); lia.
  - rewrite ids_eq_absent; [lia|]. intros H. apply memn_in in H. congruence.
Qed.

(* at most one reply per call, none for ids that were never sent — at every moment *)
Theorem replies_at_most_once calls tr s n : NoDup (map c_id calls) -> reach calls tr s ->
  count_ev (EvR n) (log s) <= if memn n (map c_id calls) then 1 else 0.
Proof.
  intros Hnd Hr. pose proof (count_conserved calls (EvR n) tr s Hr) as H.
  rewrite total_replies_init in H. pose proof (ids_eq_le n calls Hnd). lia.
Qed.

(* when everything has finished: exactly one each, and none for the calls that carry NO_REPLY_EXPECTED *)
Theorem replies_all calls tr s : NoDup (map c_id calls) -> reach calls tr s -> all_done s ->
  replies_ok calls (log s) = true.
Proof.
  intros Hnd Hr Hd. unfold replies_ok. apply forallb_forall. intros c Hc. apply Nat.eqb_eq.
  pose proof (count_conserved calls (EvR (c_id c)) tr s Hr) as H.
  rewrite total_replies_init, (ids_eq_nodup calls c Hnd Hc), (total_done _ s Hd) in H. unfold rwt in H. lia.
Qed.

(* a call that does not want a reply never gets one *)
Theorem noreply_never calls tr s c : NoDup (map c_id calls) -> reach calls tr s -> In c calls -> wants_reply c = false ->
  count_ev (EvR (c_id c)) (log s) = 0.
Proof.
  intros Hnd Hr Hc Hw. pose proof (count_conserved calls (EvR (c_id c)) tr s Hr) as H.
  rewrite total_replies_init, (ids_eq_nodup calls c Hnd Hc) in H. unfold rwt in H. rewrite Hw in H. lia.
Qed.
