(* C29/Safe.v — the decidable class of bursts for which freedom from deadlock is proved: the code of every call respects
   ONE lock order.  The order is read off the burst itself: the Properties / Introspectable instance a fdo call enters
   through (rank 0) < interface instances (1) < the root lock (2) < whatever some call takes WHILE it holds the root
   lock (3: the interfaces Introspect walks, the targets of object_server().interface()).  (executable, no proofs)

   [safe calls = false] is the known-deviation class of C30 (Known_C30). *)
From ZV Require Import Base.Bytes C29.Model C29.Spec C29.Steps C29.Order C29.Progress.

(* the locks a program requests while it holds the root lock (h = it does) *)
Fixpoint under_root (h : bool) (p : list instr) : list lock :=
  match p with
  | [] => []
  | i :: r =>
      match i with
      | IRead l | IWrite l =>
          if Nat.eqb l L_root then under_root true r else if h then l :: under_root h r else under_root h r
      | IRUnlock l | IWUnlock l => if Nat.eqb l L_root then under_root false r else under_root h r
      | _ => under_root h r
      end
  end.

Definition post (calls : list call) : list lock := flat_map (fun c => under_root false (body c)) calls.

(* interface instance locks are 3k+1; the Properties / Introspectable instances of a node (3k+2, 3k+3) are only ever the
   FIRST lock of a code path *)
Definition is_user_iface (l : lock) : bool := Nat.eqb (Nat.modulo l 3) 1.

Definition rank_of (calls : list call) (l : lock) : nat :=
  if Nat.eqb l L_root then 2
  else if memn l (post calls) then 3
  else if is_user_iface l then 1 else 0.

Definition safe (calls : list call) : bool := disciplined (rank_of calls) calls.

(* what the property text names: handlers that await, register / remove objects, emit signals *)
Definition plain_op (o : op) : bool := match o with OAwait _ | OAt | ORemove => true | OIface _ => false end.
Definition plain_method (c : call) : bool :=
  match c_kind c with KMut | KRef | KUnknown => forallb plain_op (c_script c) | _ => false end.
Definition methods_only (calls : list call) : bool := forallb plain_method calls.
(* ... method AND property handlers (Get / GetAll / Set), i.e. every kind of call except Introspect *)
Definition plain_handler (c : call) : bool :=
  match c_kind c with KIntro => false | _ => forallb plain_op (c_script c) end.
Definition handlers_only (calls : list call) : bool := forallb plain_handler calls.
