(* C29/Judge.v — the two-phase verdicts: does the model explain what the harness observed?  (executable, no proofs)
     explains_ok    the observed handler events are the S/O/E projection of a COMPLETE run of the model
     explains_hang  they are the projection of a run that ends in a state where nothing can step although calls are
                    unfinished (a deadlock), with no further handler event
   Both re-run the label list found by C29/Exec.v through Model.runs and judge the state that comes out. *)
From ZV Require Import Base.Bytes C29.Model C29.Spec C29.Exec.

Fixpoint evl_eqb (a b : list ev) : bool :=
  match a, b with
  | [], [] => true
  | x :: a', y :: b' => ev_eqb x y && evl_eqb a' b'
  | _, _ => false
  end.

Definition soe (l : list ev) : list ev := filter is_soe l.

Definition tokOK : bytes := B "OK".

Definition certify_done (calls : list call) (obs : list ev) (tr : list label) : bytes :=
  match runs tr (init calls) with
  | None => B "replay-produced-an-illegal-step"
  | Some s => if negb (evl_eqb (soe (log s)) obs) then B "projection-differs"
              else if all_done_b s then tokOK else B "the-model-run-does-not-finish-after-these-events"
  end.

(* the replies sent in the model run are exactly the replies the peer received *)
Definition replies_match (calls : list call) (rep : list nat) (lg : list ev) : bool :=
  forallb (fun c => Nat.eqb (count_ev (EvR (c_id c)) lg) (if memn (c_id c) rep then 1 else 0)) calls.

Definition certify_dead (calls : list call) (rep : list nat) (obs : list ev) (tr : list label) : bytes :=
  match runs tr (init calls) with
  | None => B "search-produced-an-illegal-step"
  | Some s => if negb (evl_eqb (soe (log s)) obs) then B "projection-differs"
              else if negb (replies_match calls rep (log s)) then B "replies-differ"
              else if none_enabled s && negb (all_done_b s) then tokOK else B "not-a-deadlock"
  end.

Definition explains_ok (calls : list call) (obs : list ev) : bytes :=
  match replay (map c_id calls) obs 0 (init calls, []) with
  | Refused why n => B "refused:" ++ why ++ B "@" ++ dec_of_N (N.of_nat n)
  | Replayed x => certify_done calls obs (rev (snd x))
  end.

Definition explains_hang (calls : list call) (rep : list nat) (obs : list ev) : bytes :=
  match replay rep obs 0 (init calls, []) with
  | Refused why n => B "refused:" ++ why ++ B "@" ++ dec_of_N (N.of_nat n)
  | Replayed x =>
      match fst (search rep 16 x 3000) with
      | Some y => certify_dead calls rep obs (rev (snd y))
      | None => B "no-deadlock-in-the-model-after-these-events"
      end
  end.
