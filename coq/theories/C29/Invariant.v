(* C29/Invariant.v — the discipline invariant [ok] of C29/Progress.v is kept by every step. *)
From ZV Require Import Base.Bytes C29.Model C29.Spec C29.Steps C29.Order C29.Progress.

Lemma tail_single i : tail_ok [i] -> i = IRecv.
Proof.
  intros [H|[p [H Hn]]]; [discriminate|]. destruct p as [|j p]; cbn in H.
  - now inversion H.
  - exfalso. inversion H as [[E1 E2]]. destruct p; discriminate.
Qed.

Lemma lm_neq_l l l' b b' : l <> l' -> lm_eqb (l, b) (l', b') = false.
Proof. intros H. apply lm_eqb_neq. congruence. Qed.
Lemma lm_neq_b l l' : lm_eqb (l, false) (l', true) = false.
Proof. apply lm_eqb_neq. congruence. Qed.
Lemma lm_neq_b' l l' : lm_eqb (l, true) (l', false) = false.
Proof. apply lm_eqb_neq. congruence. Qed.

Section Keep.
  Variable rank : lock -> nat.
  Notation ok := (ok rank).
  Notation disc_run := (disc_run rank).

  (* common part: the fields about the dispatch task's tail and the end of the stream, when task t pops i *)
  Lemma tail_end_pop s t i r tk' :
    prog (tasks s t) = i :: r -> (i = IRecv -> inbox s = [] /\ future s = []) ->
    tail_ok (prog (tasks s 0)) -> (prog (tasks s 0) = [] -> inbox s = [] /\ future s = []) ->
    prog tk' = r ->
    tail_ok (prog (updt (tasks s) t tk' 0)) /\ (prog (updt (tasks s) t tk' 0) = [] -> inbox s = [] /\ future s = []).
  Proof.
    intros Hp Hi Ht He Hk. unfold updt. destruct (Nat.eqb_spec 0 t) as [<-|Hne]; [|tauto].
    rewrite Hk. rewrite Hp in Ht. split; [eapply tail_pop; eauto|]. intros ->. apply Hi. now apply tail_single.
  Qed.

  Lemma ok_step s lb s' : wf s -> ok s -> step lb s = Some s' -> ok s'.
  Proof.
    intros Hwf Hok Hst. destruct lb as [t|].
    2:{ apply step_arrive in Hst. destruct Hst as [c [q [Hf ->]]]. destruct Hok as [H1 H2 H3 H4 H5 H6 H7].
        split; cbn; auto.
        - intros c' Hc'. apply H5. rewrite Hf. rewrite <- app_assoc in Hc'. exact Hc'.
        - intros H0. destruct (H7 H0) as [_ Hf']. congruence. }
    assert (Hlt : t < ntasks s).
    { apply wf_live; [assumption|]. unfold step in Hst. destruct (prog (tasks s t)); [discriminate|congruence]. }
    apply step_tstep in Hst.
    pose proof (k_disc _ s Hok t) as Hd.
    pose proof Hok as [K1 K2 K3 K4 K5 K6 K7].
    inversion Hst; subst; rename H into Hp; rewrite Hp in Hd; cbn [disc_gen Progress.disc_run] in Hd; unfold Progress.disc_run in Hd; cbn [disc_gen] in Hd.
    - (* read *)
      destruct (below rank (held (tasks s t)) l) eqn:Hb; [|discriminate].
      destruct (tail_end_pop s t _ _ {| prog := r; held := (l, false) :: held (tasks s t) |} Hp ltac:(discriminate) K6 K7 eq_refl) as [T1 T2].
      split; cbn [tasks locks inbox future set_task_lock].
      + intros u. unfold updt. destruct (Nat.eqb_spec u t); [subst; cbn; exact Hd|apply K1].
      + intros u l'. unfold updt, updl. destruct (Nat.eqb_spec l' l), (Nat.eqb_spec u t); subst; cbn [readers held cntn cntlm].
        * rewrite Nat.eqb_refl, lm_eqb_refl. now rewrite K2.
        * destruct (Nat.eqb_spec t u); [congruence|]. apply K2.
        * rewrite lm_neq_l by congruence. apply K2.
        * apply K2.
      + intros u l'. unfold updt, updl. destruct (Nat.eqb_spec l' l), (Nat.eqb_spec u t); subst; cbn [writer held cntlm is_wtrue].
        * rewrite lm_neq_b. rewrite <- K3, H0. reflexivity.
        * rewrite <- K3, H0. reflexivity.
        * rewrite lm_neq_b. apply K3.
        * apply K3.
      + intros u l'. unfold updl. destruct (Nat.eqb_spec l' l); [cbn; discriminate|]. intros Hw'.
        destruct (K4 u l' Hw') as [r' Hr']. unfold updt. destruct (Nat.eqb_spec u t); [subst; congruence|eauto].
      + exact K5.
      + exact T1.
      + exact T2.
    - (* read unlock *)
      destruct (memlm (l, false) (held (tasks s t))) eqn:Hb; [|discriminate].
      destruct (tail_end_pop s t _ _ {| prog := r; held := remove_lm (l, false) (held (tasks s t)) |} Hp ltac:(discriminate) K6 K7 eq_refl) as [T1 T2].
      split; cbn [tasks locks inbox future set_task_lock].
      + intros u. unfold updt. destruct (Nat.eqb_spec u t); [subst; cbn; exact Hd|apply K1].
      + intros u l'. unfold updt, updl. destruct (Nat.eqb_spec l' l), (Nat.eqb_spec u t); subst; cbn [readers held].
        * rewrite cntn_remove_same, cntlm_remove_same. now rewrite K2.
        * rewrite cntn_remove_other by congruence. apply K2.
        * rewrite cntlm_remove_other by congruence. apply K2.
        * apply K2.
      + intros u l'. unfold updt, updl. destruct (Nat.eqb_spec l' l), (Nat.eqb_spec u t); subst; cbn [writer held].
        * rewrite cntlm_remove_other by congruence. apply K3.
        * apply K3.
        * rewrite cntlm_remove_other by congruence. apply K3.
        * apply K3.
      + intros u l' Hw'. assert (Hw : writer (locks s l') = Some (u, false)).
        { revert Hw'. unfold updl. destruct (Nat.eqb_spec l' l); [subst; cbn; auto|auto]. }
        destruct (K4 u l' Hw) as [r' Hr']. unfold updt. destruct (Nat.eqb_spec u t); [subst; congruence|eauto].
      + exact K5.
      + exact T1.
      + exact T2.
    - (* write: take the writer mutex, set WRITER_BIT *)
      split; cbn [tasks locks inbox future set_task_lock].
      + intros u. unfold updt. destruct (Nat.eqb_spec u t); [subst; apply K1|apply K1].
      + intros u l'. unfold updt, updl. destruct (Nat.eqb_spec l' l), (Nat.eqb_spec u t); subst; cbn [readers]; apply K2.
      + intros u l'. unfold updt, updl. destruct (Nat.eqb_spec l' l), (Nat.eqb_spec u t); subst; cbn [writer is_wtrue];
          try apply K3; rewrite <- K3, H0; reflexivity.
      + intros u l'. unfold updl. destruct (Nat.eqb_spec l' l).
        * subst. cbn. intros E. inversion E; subst. exists r. unfold updt. now rewrite Nat.eqb_refl.
        * intros Hw'. destruct (K4 u l' Hw') as [r' Hr']. unfold updt. destruct (Nat.eqb_spec u t); [subst; eauto|eauto].
      + exact K5.
      + unfold updt. destruct (Nat.eqb_spec 0 t); [subst; exact K6|exact K6].
      + unfold updt. destruct (Nat.eqb_spec 0 t); [subst; exact K7|exact K7].
    - (* write: the readers have left *)
      destruct (below rank (held (tasks s t)) l) eqn:Hb; [|discriminate].
      destruct (tail_end_pop s t _ _ {| prog := r; held := (l, true) :: held (tasks s t) |} Hp ltac:(discriminate) K6 K7 eq_refl) as [T1 T2].
      split; cbn [tasks locks inbox future set_task_lock].
      + intros u. unfold updt. destruct (Nat.eqb_spec u t); [subst; cbn; exact Hd|apply K1].
      + intros u l'. unfold updt, updl. destruct (Nat.eqb_spec l' l), (Nat.eqb_spec u t); subst; cbn [readers held cntn cntlm].
        * rewrite lm_neq_b'. rewrite <- K2, H1. reflexivity.
        * rewrite <- K2, H1. reflexivity.
        * rewrite lm_neq_l by congruence. apply K2.
        * apply K2.
      + intros u l'. unfold updt, updl. destruct (Nat.eqb_spec l' l), (Nat.eqb_spec u t); subst; cbn [writer held cntlm is_wtrue].
        * rewrite Nat.eqb_refl, lm_eqb_refl. rewrite <- K3, H0. cbn. reflexivity.
        * destruct (Nat.eqb_spec t u); [congruence|]. rewrite <- K3, H0. reflexivity.
        * rewrite lm_neq_l by congruence. apply K3.
        * apply K3.
      + intros u l'. unfold updl. destruct (Nat.eqb_spec l' l); [cbn; discriminate|]. intros Hw'.
        destruct (K4 u l' Hw') as [r' Hr']. unfold updt. destruct (Nat.eqb_spec u t); [subst; congruence|eauto].
      + exact K5.
      + exact T1.
      + exact T2.
    - (* write unlock *)
      destruct (memlm (l, true) (held (tasks s t))) eqn:Hb; [|discriminate].
      destruct (tail_end_pop s t _ _ {| prog := r; held := remove_lm (l, true) (held (tasks s t)) |} Hp ltac:(discriminate) K6 K7 eq_refl) as [T1 T2].
      split; cbn [tasks locks inbox future set_task_lock].
      + intros u. unfold updt. destruct (Nat.eqb_spec u t); [subst; cbn; exact Hd|apply K1].
      + intros u l'. unfold updt, updl. destruct (Nat.eqb_spec l' l), (Nat.eqb_spec u t); subst; cbn [readers held].
        * rewrite cntlm_remove_other by congruence. apply K2.
        * apply K2.
        * rewrite cntlm_remove_other by congruence. apply K2.
        * apply K2.
      + intros u l'. unfold updt, updl. destruct (Nat.eqb_spec l' l), (Nat.eqb_spec u t); subst; cbn [writer held is_wtrue].
        * rewrite cntlm_remove_same. rewrite <- K3, H0. cbn. now rewrite Nat.eqb_refl.
        * rewrite <- K3, H0. cbn. destruct (Nat.eqb_spec t u); [congruence|reflexivity].
        * rewrite cntlm_remove_other by congruence. apply K3.
        * apply K3.
      + intros u l'. unfold updl. destruct (Nat.eqb_spec l' l); [cbn; discriminate|]. intros Hw'.
        destruct (K4 u l' Hw') as [r' Hr']. unfold updt. destruct (Nat.eqb_spec u t); [subst; congruence|eauto].
      + exact K5.
      + exact T1.
      + exact T2.
    - (* tau *)
      destruct (tail_end_pop s t _ _ {| prog := r; held := held (tasks s t) |} Hp ltac:(discriminate) K6 K7 eq_refl) as [T1 T2].
      split; cbn [tasks locks inbox future set_task].
      + intros u. unfold updt. destruct (Nat.eqb_spec u t); [subst; cbn; exact Hd|apply K1].
      + intros u l'. unfold updt. destruct (Nat.eqb_spec u t); subst; cbn [held]; apply K2.
      + intros u l'. unfold updt. destruct (Nat.eqb_spec u t); subst; cbn [held]; apply K3.
      + intros u l' Hw'. destruct (K4 u l' Hw') as [r' Hr']. unfold updt. destruct (Nat.eqb_spec u t); [subst; congruence|eauto].
      + exact K5.
      + exact T1.
      + exact T2.
    - (* event *)
      destruct (tail_end_pop s t _ _ {| prog := r; held := held (tasks s t) |} Hp ltac:(discriminate) K6 K7 eq_refl) as [T1 T2].
      split; cbn [tasks locks inbox future].
      + intros u. unfold updt. destruct (Nat.eqb_spec u t); [subst; cbn; exact Hd|apply K1].
      + intros u l'. unfold updt. destruct (Nat.eqb_spec u t); subst; cbn [held]; apply K2.
      + intros u l'. unfold updt. destruct (Nat.eqb_spec u t); subst; cbn [held]; apply K3.
      + intros u l' Hw'. destruct (K4 u l' Hw') as [r' Hr']. unfold updt. destruct (Nat.eqb_spec u t); [subst; congruence|eauto].
      + exact K5.
      + exact T1.
      + exact T2.
    - (* spawn *)
      destruct (body_ok rank c) eqn:Hb; [|discriminate].
      destruct (tail_end_pop s t _ _ {| prog := r; held := held (tasks s t) |} Hp ltac:(discriminate) K6 K7 eq_refl) as [T1 T2].
      destruct Hwf as [Hn1 Hidle]. pose proof (Hidle (ntasks s) (le_n _)) as Hnew.
      split; cbn [tasks locks inbox future].
      + intros u. destruct (Nat.eq_dec u (ntasks s)) as [->|Hn]; [rewrite updt_same; cbn; now apply body_ok_run|].
        rewrite updt_other by assumption. unfold updt. destruct (Nat.eqb_spec u t); [subst; cbn; exact Hd|apply K1].
      + intros u l'. destruct (Nat.eq_dec u (ntasks s)) as [->|Hn].
        * rewrite updt_same. cbn. rewrite K2, Hnew. reflexivity.
        * rewrite updt_other by assumption. unfold updt. destruct (Nat.eqb_spec u t); subst; cbn [held]; apply K2.
      + intros u l'. destruct (Nat.eq_dec u (ntasks s)) as [->|Hn].
        * rewrite updt_same. cbn. rewrite K3, Hnew. reflexivity.
        * rewrite updt_other by assumption. unfold updt. destruct (Nat.eqb_spec u t); subst; cbn [held]; apply K3.
      + intros u l' Hw'. destruct (K4 u l' Hw') as [r' Hr'].
        destruct (Nat.eq_dec u (ntasks s)) as [->|Hn]; [rewrite Hnew in Hr'; discriminate|].
        rewrite updt_other by assumption. unfold updt. destruct (Nat.eqb_spec u t); [subst; congruence|eauto].
      + exact K5.
      + rewrite updt_other by lia. exact T1.
      + rewrite updt_other by lia. exact T2.
    - (* receive *)
      rename H0 into Hib.
      destruct (is_nil (held (tasks s t))) eqn:Hnil; [|discriminate].
      assert (Hh : held (tasks s t) = []) by (destruct (held (tasks s t)); [reflexivity|discriminate]).
      assert (Hc : disc_call rank c = true) by (apply K5; rewrite Hib; now left).
      split; cbn [tasks locks inbox future].
      + intros u. unfold updt. destruct (Nat.eqb_spec u t); [subst u; cbn [prog held]|apply K1].
        rewrite Hh in *. rewrite disc_run_app. unfold disc_call in Hc.
        destruct (Progress.disc_run rank [] (dispatch c)) as [[|]|]; try discriminate.
        unfold Progress.disc_run. cbn [disc_gen is_nil]. exact Hd.
      + intros u l'. unfold updt. destruct (Nat.eqb_spec u t); subst; cbn [held]; apply K2.
      + intros u l'. unfold updt. destruct (Nat.eqb_spec u t); subst; cbn [held]; apply K3.
      + intros u l' Hw'. destruct (K4 u l' Hw') as [r' Hr']. unfold updt. destruct (Nat.eqb_spec u t); [subst; congruence|eauto].
      + intros c' Hc'. apply K5. rewrite Hib. now right.
      + unfold updt. destruct (Nat.eqb_spec 0 t); [subst t; cbn [prog]|exact K6].
        rewrite Hp in K6. apply tail_recv in K6. subst r. right. exists (dispatch c). split; [reflexivity|apply dispatch_no_recv].
      + unfold updt. destruct (Nat.eqb_spec 0 t); [subst t; cbn [prog]|].
        * intros E. apply app_eq_nil in E. destruct E as [_ E]. discriminate.
        * intros E. destruct (K7 E) as [E1 _]. congruence.
    - (* end of stream *)
      rename H0 into Hib. rename H1 into Hfu.
      destruct (is_nil (held (tasks s t))) eqn:Hnil; [|discriminate].
      destruct (tail_end_pop s t _ _ {| prog := r; held := held (tasks s t) |} Hp ltac:(auto) K6 K7 eq_refl) as [T1 T2].
      split; cbn [tasks locks inbox future set_task].
      + intros u. unfold updt. destruct (Nat.eqb_spec u t); [subst; cbn; exact Hd|apply K1].
      + intros u l'. unfold updt. destruct (Nat.eqb_spec u t); subst; cbn [held]; apply K2.
      + intros u l'. unfold updt. destruct (Nat.eqb_spec u t); subst; cbn [held]; apply K3.
      + intros u l' Hw'. destruct (K4 u l' Hw') as [r' Hr']. unfold updt. destruct (Nat.eqb_spec u t); [subst; congruence|eauto].
      + exact K5.
      + exact T1.
      + exact T2.
  Qed.

  Lemma ok_reach calls tr s : disciplined rank calls = true -> reach calls tr s -> wf s /\ ok s.
  Proof.
    intros Hd. unfold reach. revert tr s. apply reach_ind.
    - split; [apply wf_init|now apply ok_init].
    - intros s lb s' [Hw Ho] Hst. split; [eapply wf_step; eauto|eapply ok_step; eauto].
  Qed.
End Keep.
