(* C29/Progress.v — lock-order discipline => no deadlock, for the RwLock semantics of the model (write-preferring,
   a pending writer blocks new readers), any number of tasks, any scripts, any scheduler.

   A rank function on locks is given.  A program is DISCIPLINED when it requests a lock only while every guard it holds
   has a strictly smaller rank, releases only what it holds, ends holding nothing, and spawns only disciplined bodies.
   Theorem [progress]: in every state reachable from a burst of disciplined calls, either some step is enabled or
   every task has finished and nothing is left to arrive. *)
From ZV Require Import Base.Bytes C29.Model C29.Spec C29.Steps C29.Order.

(* ---- counting ---- *)
Fixpoint cntn (x : nat) (l : list nat) : nat :=
  match l with [] => 0 | y :: r => (if Nat.eqb y x then 1 else 0) + cntn x r end.
Fixpoint cntlm (x : lock * bool) (l : list (lock * bool)) : nat :=
  match l with [] => 0 | y :: r => (if lm_eqb y x then 1 else 0) + cntlm x r end.

Lemma lm_eqb_eq a b : lm_eqb a b = true <-> a = b.
Proof.
  unfold lm_eqb. destruct a as [a1 a2], b as [b1 b2]. cbn. rewrite andb_true_iff, Nat.eqb_eq, eqb_true_iff.
  split; [intros [-> ->]; reflexivity|intros H; inversion H; auto].
Qed.
Lemma lm_eqb_refl a : lm_eqb a a = true.
Proof. now apply lm_eqb_eq. Qed.
Lemma lm_eqb_neq a b : a <> b -> lm_eqb a b = false.
Proof. intros H. destruct (lm_eqb a b) eqn:E; [apply lm_eqb_eq in E; congruence|reflexivity]. Qed.

Lemma cntn_remove_same x l : cntn x (remove_one x l) = pred (cntn x l).
Proof.
  induction l as [|y r IH]; cbn; [reflexivity|]. destruct (Nat.eqb_spec y x); cbn; [reflexivity|].
  destruct (Nat.eqb_spec y x); [congruence|]. exact IH.
Qed.
Lemma cntn_remove_other x y l : y <> x -> cntn y (remove_one x l) = cntn y l.
Proof.
  intros Hne. induction l as [|z r IH]; cbn; [reflexivity|]. destruct (Nat.eqb_spec z x); cbn.
  - subst z. destruct (Nat.eqb_spec x y); [congruence|reflexivity].
  - now rewrite IH.
Qed.
Lemma memn_cntn x l : memn x l = true <-> 1 <= cntn x l.
Proof.
  unfold memn. induction l as [|y r IH]; cbn; [split; [discriminate|lia]|].
  rewrite orb_true_iff, IH. rewrite (Nat.eqb_sym x y). destruct (Nat.eqb y x); split; intros H; try lia; auto.
Qed.
Lemma cntn_in x l : 1 <= cntn x l -> In x l.
Proof.
  induction l as [|y r IH]; cbn; [lia|]. destruct (Nat.eqb_spec y x); [left; assumption|]. cbn. auto.
Qed.
Lemma cntlm_remove_same x l : cntlm x (remove_lm x l) = pred (cntlm x l).
Proof.
  induction l as [|y r IH]; cbn; [reflexivity|]. destruct (lm_eqb y x) eqn:E; cbn; [reflexivity|]. rewrite E. exact IH.
Qed.
Lemma cntlm_remove_other x y l : y <> x -> cntlm y (remove_lm x l) = cntlm y l.
Proof.
  intros Hne. induction l as [|z r IH]; cbn; [reflexivity|]. destruct (lm_eqb z x) eqn:E; cbn.
  - apply lm_eqb_eq in E. subst z. rewrite lm_eqb_neq by congruence. reflexivity.
  - now rewrite IH.
Qed.
Definition memlm (x : lock * bool) (l : list (lock * bool)) : bool := existsb (fun y => lm_eqb y x) l.
Lemma memlm_cnt x l : memlm x l = true <-> 1 <= cntlm x l.
Proof.
  unfold memlm. induction l as [|y r IH]; cbn; [split; [discriminate|lia]|].
  rewrite orb_true_iff, IH. destruct (lm_eqb y x); split; intros H; try lia; auto.
Qed.
Lemma cntlm_in x l : 1 <= cntlm x l -> In x l.
Proof.
  induction l as [|y r IH]; cbn; [lia|]. destruct (lm_eqb y x) eqn:E; [apply lm_eqb_eq in E; left; assumption|]. cbn. auto.
Qed.

Section Discipline.
  Variable rank : lock -> nat.

  Definition below (H : list (lock * bool)) (l : lock) : bool := forallb (fun h => rank (fst h) <? rank l) H.

  (* Some H' = the program respects the discipline when started holding H, and ends holding H' *)
  Fixpoint disc_gen (sp : call -> bool) (H : list (lock * bool)) (p : list instr) : option (list (lock * bool)) :=
    match p with
    | [] => Some H
    | i :: r =>
        match i with
        | IRead l => if below H l then disc_gen sp ((l, false) :: H) r else None
        | IWrite l => if below H l then disc_gen sp ((l, true) :: H) r else None
        | IRUnlock l => if memlm (l, false) H then disc_gen sp (remove_lm (l, false) H) r else None
        | IWUnlock l => if memlm (l, true) H then disc_gen sp (remove_lm (l, true) H) r else None
        | ISpawn c => if sp c then disc_gen sp H r else None
        | IRecv => if is_nil H then disc_gen sp H r else None
        | ITau | IEv _ => disc_gen sp H r
        end
    end.
  (* the body run by a spawned task: no further spawn, starts and ends holding nothing *)
  Definition body_ok (c : call) : bool :=
    match disc_gen (fun _ => false) [] (body c) with Some [] => true | _ => false end.
  Definition disc_run := disc_gen body_ok.

  Definition disc_call (c : call) : bool :=
    match disc_run [] (dispatch c) with Some [] => true | _ => false end.
  Definition disciplined (calls : list call) : bool := forallb disc_call calls.

  Lemma disc_run_app p q H :
    disc_run H (p ++ q) = match disc_run H p with Some H' => disc_run H' q | None => None end.
  Proof.
    unfold disc_run. revert H. induction p as [|i p IH]; intros H; cbn [app disc_gen]; [reflexivity|].
    destruct i; try apply IH.
    - destruct (below H l); [apply IH|reflexivity].
    - destruct (memlm (l, false) H); [apply IH|reflexivity].
    - destruct (below H l); [apply IH|reflexivity].
    - destruct (memlm (l, true) H); [apply IH|reflexivity].
    - destruct (body_ok c); [apply IH|reflexivity].
    - destruct (is_nil H); [apply IH|reflexivity].
  Qed.

  Lemma disc_gen_mono sp p : forall H H', disc_gen (fun _ => false) H p = Some H' -> disc_gen sp H p = Some H'.
  Proof.
    induction p as [|i p IH]; intros H H'; cbn [disc_gen]; [auto|].
    destruct i; auto.
    - destruct (below H l); auto.
    - destruct (memlm (l, false) H); auto.
    - destruct (below H l); auto.
    - destruct (memlm (l, true) H); auto.
    - discriminate.
    - destruct (is_nil H); auto.
  Qed.

  Lemma body_ok_run c : body_ok c = true -> disc_run [] (body c) = Some [].
  Proof.
    unfold body_ok. destruct (disc_gen (fun _ => false) [] (body c)) as [[|]|] eqn:E; try discriminate.
    intros _. now apply disc_gen_mono.
  Qed.

  Definition is_wtrue (w : option (nat * bool)) (t : nat) : nat :=
    match w with Some (u, true) => if Nat.eqb u t then 1 else 0 | _ => 0 end.

  Record ok (s : sys) : Prop := {
    k_disc : forall t, disc_run (held (tasks s t)) (prog (tasks s t)) = Some [];
    k_rd : forall t l, cntn t (readers (locks s l)) = cntlm (l, false) (held (tasks s t));
    k_wr : forall t l, is_wtrue (writer (locks s l)) t = cntlm (l, true) (held (tasks s t));
    k_pend : forall t l, writer (locks s l) = Some (t, false) -> exists r, prog (tasks s t) = IWrite l :: r;
    k_calls : forall c, In c (inbox s ++ future s) -> disc_call c = true;
    k_tail : tail_ok (prog (tasks s 0));
    k_end : prog (tasks s 0) = [] -> inbox s = [] /\ future s = []
  }.

  Lemma ok_init calls : disciplined calls = true -> ok (init calls).
  Proof.
    intros Hd. split; cbn.
    - intros t. destruct (Nat.eqb t 0); reflexivity.
    - intros t l. destruct (Nat.eqb t 0); reflexivity.
    - intros t l. destruct (Nat.eqb t 0); reflexivity.
    - discriminate.
    - intros c Hc. unfold disciplined in Hd. rewrite forallb_forall in Hd. auto.
    - right. exists []. split; [reflexivity|tauto].
    - discriminate.
  Qed.

  (* a task that holds a guard of rank k is alive, and whatever lock it asks for next has a larger rank *)
  Lemma holder_head s u x : ok s -> In x (held (tasks s u)) ->
    exists i r, prog (tasks s u) = i :: r /\
      forall l', i = IRead l' \/ i = IWrite l' -> rank (fst x) < rank l'.
  Proof.
    intros Hok Hin. pose proof (k_disc s Hok u) as Hd.
    destruct (prog (tasks s u)) as [|i r] eqn:Hp.
    - cbn in Hd. inversion Hd as [E]. rewrite E in Hin. destruct Hin.
    - exists i, r. split; [reflexivity|]. intros l' [->| ->]; cbn in Hd;
        destruct (below (held (tasks s u)) l') eqn:Hb; try discriminate;
        unfold below in Hb; rewrite forallb_forall in Hb; specialize (Hb x Hin); now apply Nat.ltb_lt in Hb.
  Qed.

  Definition is_req (i : instr) (l : lock) : Prop := i = IRead l \/ i = IWrite l.

  (* instructions other than lock requests are always enabled (possibly after an arrival) *)
  Lemma enabled_nonreq s t i r : ok s -> prog (tasks s t) = i :: r -> (forall l, ~ is_req i l) ->
    exists lb s', step lb s = Some s'.
  Proof.
    intros Hok Hp Hn. pose proof (k_disc s Hok t) as Hd. rewrite Hp in Hd.
    destruct i.
    - exfalso. apply (Hn l). now left.
    - cbn in Hd. destruct (memlm (l, false) (held (tasks s t))) eqn:Hm; [|discriminate].
      apply memlm_cnt in Hm. rewrite <- (k_rd s Hok) in Hm. apply memn_cntn in Hm.
      exists (LTask t). eexists. apply tstep_step. eapply ts_runlock; eauto.
    - exfalso. apply (Hn l). now right.
    - cbn in Hd. destruct (memlm (l, true) (held (tasks s t))) eqn:Hm; [|discriminate].
      apply memlm_cnt in Hm. rewrite <- (k_wr s Hok) in Hm. unfold is_wtrue in Hm.
      destruct (writer (locks s l)) as [[u [|]]|] eqn:Hw; try lia. destruct (Nat.eqb_spec u t); [subst u|lia].
      exists (LTask t). eexists. apply tstep_step. eapply ts_wunlock; eauto.
    - exists (LTask t). eexists. apply tstep_step. eapply ts_tau; eauto.
    - exists (LTask t). eexists. apply tstep_step. eapply ts_ev; eauto.
    - exists (LTask t). eexists. apply tstep_step. eapply ts_spawn; eauto.
    - destruct (inbox s) as [|c q] eqn:Hi.
      + destruct (future s) as [|c q] eqn:Hf.
        * exists (LTask t). eexists. apply tstep_step. eapply ts_eos; eauto.
        * exists LArrive. eexists. cbn. rewrite Hf. reflexivity.
      + exists (LTask t). eexists. apply tstep_step. eapply ts_recv; eauto.
  Qed.

  (* a holder of lock l either can do something, or waits for a lock of larger rank *)
  Lemma holder_moves s u x : ok s -> In x (held (tasks s u)) ->
    (exists lb s', step lb s = Some s') \/
    (exists i r l', prog (tasks s u) = i :: r /\ is_req i l' /\ rank (fst x) < rank l').
  Proof.
    intros Hok Hin. destruct (holder_head s u x Hok Hin) as [i [r [Hp Hr]]].
    assert (Hdec : (exists l', is_req i l') \/ (forall l', ~ is_req i l')).
    { destruct i; try (right; intros l' [H|H]; discriminate); left; eexists; [left|right]; reflexivity. }
    destruct Hdec as [[l' Hq]|Hn].
    - right. exists i, r, l'. repeat split; auto.
    - left. eapply enabled_nonreq; eauto.
  Qed.

  Lemma reader_moves s v l : ok s -> In v (readers (locks s l)) ->
    (exists lb s', step lb s = Some s') \/
    (exists i r l', prog (tasks s v) = i :: r /\ is_req i l' /\ rank l < rank l').
  Proof.
    intros Hok Hin. apply (holder_moves s v (l, false) Hok). apply cntlm_in. rewrite <- (k_rd s Hok).
    clear Hok. induction (readers (locks s l)) as [|y r IH]; [destruct Hin|]. cbn.
    destruct Hin as [->|Hin]; [rewrite Nat.eqb_refl; lia|]. specialize (IH Hin). lia.
  Qed.

  Lemma writer_moves s u l : ok s -> writer (locks s l) = Some (u, true) ->
    (exists lb s', step lb s = Some s') \/
    (exists i r l', prog (tasks s u) = i :: r /\ is_req i l' /\ rank l < rank l').
  Proof.
    intros Hok Hw. apply (holder_moves s u (l, true) Hok). apply cntlm_in. rewrite <- (k_wr s Hok), Hw. cbn.
    rewrite Nat.eqb_refl. lia.
  Qed.

  (* a pending writer moves as soon as the readers have left; otherwise some reader is to blame *)
  Lemma pending_moves s u l : ok s -> writer (locks s l) = Some (u, false) ->
    (exists lb s', step lb s = Some s') \/
    (exists v i r l', prog (tasks s v) = i :: r /\ is_req i l' /\ rank l < rank l').
  Proof.
    intros Hok Hw. destruct (k_pend s Hok u l Hw) as [r Hp].
    destruct (readers (locks s l)) as [|v rs] eqn:Hr.
    - left. exists (LTask u). eexists. apply tstep_step. eapply ts_wacquire; eauto.
    - destruct (reader_moves s v l Hok) as [H|[i [r' [l' H]]]]; [rewrite Hr; now left|now left|].
      right. exists v, i, r', l'. exact H.
  Qed.

  (* the heart: a task blocked on l points to an enabled step or to a task blocked on a lock of larger rank *)
  Lemma climb s t i r l : ok s -> prog (tasks s t) = i :: r -> is_req i l ->
    (exists lb s', step lb s = Some s') \/
    (exists v i' r' l', prog (tasks s v) = i' :: r' /\ is_req i' l' /\ rank l < rank l').
  Proof.
    intros Hok Hp Hq.
    destruct (writer (locks s l)) as [[u [|]]|] eqn:Hw.
    - destruct (writer_moves s u l Hok Hw) as [H|[i' [r' [l' H]]]]; [now left|]. right. exists u, i', r', l'. exact H.
    - apply (pending_moves s u l Hok Hw).
    - left. exists (LTask t). destruct Hq as [-> | ->]; eexists; apply tstep_step; [eapply ts_read|eapply ts_wbegin]; eauto.
  Qed.

  Variable R : nat.
  Hypothesis rank_le : forall l, rank l <= R.

  Lemma climb_all s : ok s -> forall n t i r l, R - rank l <= n -> prog (tasks s t) = i :: r -> is_req i l ->
    exists lb s', step lb s = Some s'.
  Proof.
    intros Hok. induction n as [|n IH]; intros t i r l Hn Hp Hq.
    - destruct (climb s t i r l Hok Hp Hq) as [H|[v [i' [r' [l' [_ [_ Hlt]]]]]]]; [exact H|].
      pose proof (rank_le l'). lia.
    - destruct (climb s t i r l Hok Hp Hq) as [H|[v [i' [r' [l' [Hp' [Hq' Hlt]]]]]]]; [exact H|].
      apply (IH v i' r' l'); auto. pose proof (rank_le l'). lia.
  Qed.

  Lemma live_or_not s : forall n, (exists t i r, t < n /\ prog (tasks s t) = i :: r) \/ (forall t, t < n -> prog (tasks s t) = []).
  Proof.
    induction n as [|n [[t [i [r [Hlt Hp]]]]|Hall]].
    - right. intros t Ht. lia.
    - left. exists t, i, r. split; [lia|assumption].
    - destruct (prog (tasks s n)) as [|i r] eqn:Hp.
      + right. intros t Ht. destruct (Nat.eq_dec t n); [now subst|apply Hall; lia].
      + left. exists n, i, r. split; [lia|assumption].
  Qed.

  (* no deadlock: in a state kept by the discipline, something can happen unless everything has finished *)
  Theorem progress s : wf s -> ok s -> (exists lb s', step lb s = Some s') \/ all_done s.
  Proof.
    intros Hwf Hok.
    destruct (live_or_not s (ntasks s)) as [[t [i [r [Hlt Hp]]]]|Hall].
    - left.
      assert (Hdec : (exists l, is_req i l) \/ (forall l, ~ is_req i l)).
      { destruct i; try (right; intros l' [H|H]; discriminate); left; eexists; [left|right]; reflexivity. }
      destruct Hdec as [[l Hq]|Hn].
      + apply (climb_all s Hok R t i r l); auto. lia.
      + eapply enabled_nonreq; eauto.
    - right.
      assert (Hd : forall t, prog (tasks s t) = []).
      { intros t. destruct (Nat.lt_ge_cases t (ntasks s)) as [H|H]; [now apply Hall|]. destruct Hwf as [_ Hi]. now rewrite (Hi t H). }
      split; [exact Hd|]. destruct (k_end s Hok (Hd 0)) as [Hi Hf]. now split.
  Qed.
End Discipline.
