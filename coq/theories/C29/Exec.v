(* C29/Exec.v — executable helpers around Model.step used by the line drivers (C29/Run.v, C30/Run.v) and by the
   examples: a replay that threads the observed handler events through the model, an eager "saturation" of the
   steps nobody can observe, and a bounded search for a deadlock.  Everything here only ever calls [step]; the
   drivers re-run the produced label list through [runs] before they believe it (see replay_ok_sound in C29/Proofs.v).
   No proofs in this file. *)
From ZV Require Import Base.Bytes C29.Model C29.Spec.

Definition is_soe (e : ev) : bool := match e with EvR _ => false | _ => true end.     (* logged by the handler itself *)

(* the first handler event a program will emit at its own level *)
Fixpoint first_soe (p : list instr) : option ev :=
  match p with
  | [] => None
  | IEv e :: r => if is_soe e then Some e else first_soe r
  | _ :: r => first_soe r
  end.

Definition is_acq (i : instr) : bool := match i with IRead _ | IWrite _ => true | _ => false end.
(* [rep] = the calls whose reply the peer has received.  An instruction the replay must not run by itself: a handler
   event (those are run when observed) or a reply that was never received *)
Definition is_obs (rep : list nat) (i : instr) : bool :=
  match i with
  | IEv (EvR c) => negb (memn c rep)
  | IEv _ => true
  | _ => false
  end.

(* state + labels so far (most recent first) *)
Definition st := (sys * list label)%type.

Definition do_step (lb : label) (x : st) : option st :=
  match step lb (fst x) with Some s' => Some (s', lb :: snd x) | None => None end.

Definition head (s : sys) (t : nat) : option instr := match prog (tasks s t) with i :: _ => Some i | [] => None end.

Definition lheld_eqb (a b : list (lock * bool)) : bool :=
  Nat.eqb (length a) (length b) && forallb (fun x => existsb (lm_eqb x) b) a.

(* a writer that already owns the writer mutex and only waits for the readers *)
Definition writer_pending (s : sys) (t : nat) (i : instr) : bool :=
  match i with
  | IWrite l => match writer (locks s l) with Some (u, false) => Nat.eqb u t | _ => false end
  | _ => false
  end.

(* one instruction of task t; a write lock is taken in its two steps at once (fails if the readers have not left) *)
Definition step_instr (t : nat) (x : st) : option st :=
  match head (fst x) t with
  | Some (IWrite l) =>
      match writer (locks (fst x) l) with
      | None => match do_step (LTask t) x with Some x1 => do_step (LTask t) x1 | None => None end
      | Some _ => do_step (LTask t) x
      end
  | Some _ => do_step (LTask t) x
  | None => None
  end.

(* run task t forward over instructions nobody observes, as long as they are enabled, until it holds again exactly what
   it held at the start (or has finished); None if it gets blocked or meets a handler event first *)
Fixpoint try_atomic (rep : list nat) (fuel : nat) (t : nat) (h0 : list (lock * bool)) (x : st) : option st :=
  match fuel with
  | O => None
  | S f =>
      match head (fst x) t with
      | None => Some x
      | Some i =>
          if is_obs rep i then None
          else match step_instr t x with
               | None => None
               | Some x1 => if lheld_eqb (held (tasks (fst x1) t)) h0 then Some x1 else try_atomic rep f t h0 x1
               end
      end
  end.

(* eager part of task t: releases, self-completing awaits, replies, spawns, receives, the completion of a pending
   write acquisition and — in replay mode ([atomic] = true) — acquire..release segments that contain no handler event
   and are not followed by one (the root lookup of the dispatch task, Introspect, the error reply for an unknown
   object).  An operation of a handler is followed by its completion event, so it is only executed when that event
   has been observed. *)
Definition next_is_obs (rep : list nat) (s : sys) (t : nat) : bool :=
  match head s t with Some i => is_obs rep i | None => false end.

Fixpoint eager_task (rep : list nat) (atomic : bool) (fuel : nat) (t : nat) (x : st) : st * bool :=
  match fuel with
  | O => (x, false)
  | S f =>
      match head (fst x) t with
      | None => (x, false)
      | Some i =>
          if is_obs rep i then (x, false)
          else
            let next :=
              if is_acq i then
                if writer_pending (fst x) t i then do_step (LTask t) x
                else if atomic then
                  match try_atomic rep 200 t (held (tasks (fst x) t)) x with
                  | Some x1 => if next_is_obs rep (fst x1) t then None else Some x1
                  | None => None
                  end
                else None
              else do_step (LTask t) x in
            match next with
            | Some x1 => (fst (eager_task rep atomic f t x1), true)
            | None => (x, false)
            end
      end
  end.

Fixpoint eager_all (rep : list nat) (atomic : bool) (ts : list nat) (x : st) : st * bool :=
  match ts with
  | [] => (x, false)
  | t :: r => let '(x1, b1) := eager_task rep atomic 2000 t x in
              let '(x2, b2) := eager_all rep atomic r x1 in (x2, b1 || b2)
  end.

(* arrivals are eager too: the whole burst has been sent before anything is observed *)
Fixpoint arrive_all (fuel : nat) (x : st) : st :=
  match fuel with
  | O => x
  | S f => match do_step LArrive x with Some x1 => arrive_all f x1 | None => x end
  end.

Fixpoint saturate (rep : list nat) (atomic : bool) (fuel : nat) (x : st) : st :=
  match fuel with
  | O => x
  | S f =>
      let x0 := arrive_all 1000 x in
      let '(x1, b) := eager_all rep atomic (seq 0 (ntasks (fst x0))) x0 in
      (* tasks spawned during the pass are picked up by the next one *)
      if b || negb (Nat.eqb (ntasks (fst x1)) (ntasks (fst x0))) then saturate rep atomic f x1 else x1
  end.

(* which task will emit handler event e next? *)
Fixpoint find_task (e : ev) (s : sys) (ts : list nat) : option nat :=
  match ts with
  | [] => None
  | t :: r => match first_soe (prog (tasks s t)) with
              | Some e' => if ev_eqb e' e then Some t else find_task e s r
              | None => find_task e s r
              end
  end.

(* run task t (all its unobserved instructions, acquisitions included, each must be enabled) up to and including
   the handler event e *)
Fixpoint advance_to (rep : list nat) (fuel : nat) (e : ev) (t : nat) (x : st) : option st :=
  match fuel with
  | O => None
  | S f =>
      match head (fst x) t with
      | None => None
      | Some (IEv e') =>
          if is_soe e' then (if ev_eqb e' e then do_step (LTask t) x else None)
          else if is_obs rep (IEv e') then None
          else match do_step (LTask t) x with Some x1 => advance_to rep f e t x1 | None => None end
      | Some _ => match step_instr t x with Some x1 => advance_to rep f e t x1 | None => None end
      end
  end.

Inductive outcome := Replayed (x : st) | Refused (why : bytes) (at_ev : nat).

(* thread the observed handler events (S/O/E, in the order they were logged) through the model *)
Fixpoint replay (rep : list nat) (obs : list ev) (n : nat) (x : st) : outcome :=
  match obs with
  | [] => Replayed (saturate rep true 400 x)
  | e :: r =>
      let x0 := saturate rep true 400 x in
      match find_task e (fst x0) (seq 0 (ntasks (fst x0))) with
      | None => Refused (B "no-task-can-emit-this-event-now") n
      | Some t => match advance_to rep 2000 e t x0 with
                  | None => Refused (B "the-task-is-blocked-before-this-event") n
                  | Some x1 => replay rep r (S n) x1
                  end
      end
  end.

Definition all_done_b (s : sys) : bool :=
  forallb (fun t => is_nil (prog (tasks s t))) (seq 0 (ntasks s)) && is_nil (future s) && is_nil (inbox s).

Definition none_enabled (s : sys) : bool :=
  forallb (fun t => match step (LTask t) s with None => true | Some _ => false end) (seq 0 (ntasks s))
  && match step LArrive s with None => true | Some _ => false end.

(* ---- looking for a deadlock that produces no further handler event: saturate (no atomic segments), then branch on
   which task takes its next (enabled) acquisition step.  [budget] bounds the number of visited states. ---- *)
Fixpoint search (rep : list nat) (fuel : nat) (x : st) (budget : nat) : option st * nat :=
  match fuel, budget with
  | O, _ => (None, budget)
  | _, O => (None, 0)
  | S f, S b =>
      let x1 := saturate rep false 400 x in
      let s := fst x1 in
      if none_enabled s then ((if all_done_b s then None else Some x1), b)
      else
        (fix try (ts : list nat) (bud : nat) : option st * nat :=
           match ts with
           | [] => (None, bud)
           | t :: r =>
               match head s t with
               | Some i =>
                   if is_acq i then
                     match do_step (LTask t) x1 with
                     | Some x2 => let '(res, bud') := search rep f x2 bud in
                                  match res with Some y => (Some y, bud') | None => try r bud' end
                     | None => try r bud
                     end
                   else try r bud
               | None => try r bud
               end
           end) (seq 0 (ntasks s)) b
  end.

(* a fair run to the end, used by the examples: always the first enabled label *)
Fixpoint first_enabled (s : sys) (ts : list nat) : option (label * sys) :=
  match ts with
  | [] => None
  | t :: r => match step (LTask t) s with Some s' => Some (LTask t, s') | None => first_enabled s r end
  end.

Fixpoint auto_run (fuel : nat) (s : sys) (acc : list label) : list label * sys :=
  match fuel with
  | O => (rev acc, s)
  | S f =>
      match step LArrive s with
      | Some s' => auto_run f s' (LArrive :: acc)
      | None => match first_enabled s (seq 0 (ntasks s)) with
                | Some (lb, s') => auto_run f s' (lb :: acc)
                | None => (rev acc, s)
                end
      end
  end.

(* the same, but later tasks first (another schedule) *)
Fixpoint auto_run_rev (fuel : nat) (s : sys) (acc : list label) : list label * sys :=
  match fuel with
  | O => (rev acc, s)
  | S f =>
      match first_enabled s (rev (seq 0 (ntasks s))) with
      | Some (lb, s') => auto_run_rev f s' (lb :: acc)
      | None => match step LArrive s with
                | Some s' => auto_run_rev f s' (LArrive :: acc)
                | None => (rev acc, s)
                end
      end
  end.
