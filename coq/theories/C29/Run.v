(* C29/Run.v — two-phase line driver.  Input:  <case> TAB <observation>   (syntax: harness/hdisp, C29/Parse.v)
   model field : does the model explain the observation (C29/Judge.v)?
   spec field  : the property on the implementation's own log — inline calls strictly one after the other in arrival
                 order, every call exactly one reply, error replies exactly for the unknown object; `-` for bursts
                 outside the class in which freedom from deadlock holds (those belong to C30)
   class       : `-` *)
From ZV Require Import Base.Bytes C29.Model C29.Spec C29.Exec C29.Parse C29.Judge C29.Progress C29.Safe.

Definition err_flags_ok (calls : list call) (l : list oev) : bool :=
  forallb (fun o => match o with
                    | OEv (EvR n) err =>
                        forallb (fun c => negb (Nat.eqb (c_id c) n) ||
                                          Bool.eqb err (match c_kind c with KUnknown => true | _ => false end)) calls
                    | _ => true
                    end) l.

(* a reply is received after the handler has ended *)
Fixpoint reply_after_end (seen : list ev) (l : list ev) (calls : list call) : bool :=
  match l with
  | [] => true
  | EvR n :: r =>
      forallb (fun c => negb (Nat.eqb (c_id c) n) ||
                        match c_kind c with
                        | KIntro | KUnknown => true
                        | _ => Nat.ltb 0 (count_ev (EvE n) seen)
                        end) calls && reply_after_end seen r calls
  | e :: r => reply_after_end (e :: seen) r calls
  end.

Definition spec_c29 (calls : list call) (hang : bool) (l : list oev) : bytes :=
  let evs := evs_of l in
  if negb (safe calls) then dash
  else if negb (order_ok calls evs) then B "inline-calls-not-sequential-in-arrival-order"
  else if hang then B "calls-without-reply"
  else if negb (order_complete calls evs) then B "inline-handler-events-missing"
  else if negb (replies_ok calls evs) then B "not-exactly-one-reply-per-call"
  else if negb (err_flags_ok calls l) then B "wrong-kind-of-reply"
  else if negb (reply_after_end [] evs calls) then B "reply-before-handler-end"
  else tokOK.

Definition replied (l : list ev) : list nat := flat_map (fun e => match e with EvR c => [c] | _ => [] end) l.

Definition run_case (line : bytes) : outp :=
  match split_on tab line with
  | [case; obs] =>
      match parse_case case, parse_obs obs with
      | Some calls, Some (hang, l) =>
          let evs := evs_of l in
          {| o_model := if hang then explains_hang calls (replied evs) (soe evs) else explains_ok calls (soe evs);
             o_spec := spec_c29 calls hang l;
             o_class := dash |}
      | _, _ => bad_case
      end
  | _ => bad_case
  end.

Definition run (line : bytes) : bytes := render (run_case line).
