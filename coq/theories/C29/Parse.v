(* C29/Parse.v — the case and observation syntax of harness/hdisp (see its header comment), shared by C29/Run.v and
   C30/Run.v.  No proofs in this file. *)
From ZV Require Import Base.Bytes C29.Model C29.Spec.

Fixpoint parse_all {A B} (f : A -> option B) (l : list A) : option (list B) :=
  match l with
  | [] => Some []
  | x :: r => match f x, parse_all f r with Some y, Some ys => Some (y :: ys) | _, _ => None end
  end.

Definition nat_of_dec (s : bytes) : option nat := option_map N.to_nat (N_of_dec s).

Definition parse_op (w : bytes) : option op :=
  match w with
  | c :: arg =>
      if beq c "y"%byte then option_map OAwait (nat_of_dec arg)
      else if beq c "z"%byte then option_map (fun _ => OAwait 1) (nat_of_dec arg)
      else if beq c "e"%byte then (if is_nil arg then Some (OAwait 1) else None)
      else if beq c "a"%byte then option_map (fun _ => OAt) (nat_of_dec arg)
      else if beq c "r"%byte then option_map (fun _ => ORemove) (nat_of_dec arg)
      else if beq c "i"%byte then option_map OIface (nat_of_dec arg)
      else None
  | [] => None
  end.

Definition parse_script (s : bytes) : option (list op) :=
  if lbeq s (B "-") then Some [] else parse_all parse_op (split_on "."%byte s).

(* interface instances 0 and 1 have task spawning enabled, 2 and 3 have it disabled *)
Definition spawn_of (k : nat) : bool := Nat.ltb k 2.

(* head of a call token: kind letter, interface digit(s), optional `!` = NO_REPLY_EXPECTED (method calls only) *)
Definition strip_bang (ks : bytes) : bytes * bool :=
  match rev ks with
  | l :: r => if beq l "!"%byte then (rev r, true) else (ks, false)
  | [] => (ks, false)
  end.

Definition parse_call (getters : list (list op)) (id : nat) (w : bytes) : option call :=
  let '(hd, script) := match split_on ":"%byte w with
                       | [h] => (h, Some [])
                       | [h; s] => (h, parse_script s)
                       | _ => ([], None)
                       end in
  match hd, script with
  | c :: ks0, Some sc =>
      if beq c "n"%byte then
        (if is_nil ks0 then Some {| c_id := id; c_kind := KUnknown; c_if := 0; c_spawn := false; c_noreply := false; c_script := [] |} else None)
      else
        let '(ks, bang) := strip_bang ks0 in
        match nat_of_dec ks with
        | Some k =>
            if Nat.ltb k 4 then
              let mk kind spawn nr script :=
                if nr && negb (beq c "m"%byte || beq c "f"%byte) then None
                else Some {| c_id := id; c_kind := kind; c_if := k; c_spawn := spawn; c_noreply := nr; c_script := script |} in
              if beq c "m"%byte then mk KMut (spawn_of k) bang sc
              else if beq c "f"%byte then mk KRef (spawn_of k) bang sc
              else if beq c "g"%byte then mk KGet true bang (nth k getters [])
              else if beq c "G"%byte then mk KGetAll true bang (nth k getters [])
              else if beq c "s"%byte then mk KSetMut true bang sc
              else if beq c "t"%byte then mk KSetRef true bang sc
              else if beq c "x"%byte then mk KIntro true bang []
              else None
            else None
        | None => None
        end
  | _, _ => None
  end.

Fixpoint parse_calls (getters : list (list op)) (id : nat) (ws : list bytes) : option (list call) :=
  match ws with
  | [] => Some []
  | w :: r => match parse_call getters id w, parse_calls getters (S id) r with
              | Some c, Some cs => Some (c :: cs)
              | _, _ => None
              end
  end.

(* D <exec> <g0>,<g1>,<g2>,<g3> <call> ... *)
Definition parse_case (line : bytes) : option (list call) :=
  match words line with
  | d :: _exec :: gs :: cs =>
      if lbeq d (B "D") then
        match parse_all parse_script (split_on ","%byte gs) with
        | Some getters => if Nat.eqb (length getters) 4 then parse_calls getters 0 cs else None
        | None => None
        end
      else None
  | _ => None
  end.

(* the calls whose handler removes the interface it runs on (script op `r2`): (position in the burst, interface) *)
Fixpoint self_removers_from (i : nat) (ws : list bytes) : list (nat * nat) :=
  match ws with
  | [] => []
  | w :: r =>
      let rest := self_removers_from (S i) r in
      match split_on ":"%byte w with
      | [c :: ks0; sc] =>
          if existsb (fun o => lbeq o (B "r2")) (split_on "."%byte sc)
          then match nat_of_dec (fst (strip_bang ks0)) with Some k => (i, k) :: rest | None => rest end
          else rest
      | _ => rest
      end
  end.

Definition self_removers (line : bytes) : list (nat * nat) :=
  match words line with
  | _ :: _ :: _ :: cs => self_removers_from 0 cs
  | _ => []
  end.

(* ---- observation:  <OK|HANG>#<events joined by ,>  ---- *)
Inductive oev := OEv (e : ev) (err : bool) | OAtDone | OSent (c : nat).

Definition parse_oev (w : bytes) : option oev :=
  if lbeq w (B "AT") then Some OAtDone else
  match w with
  | c :: rest =>
      if beq c "S"%byte then option_map (fun n => OEv (EvS n) false) (nat_of_dec rest)
      else if beq c "E"%byte then option_map (fun n => OEv (EvE n) false) (nat_of_dec rest)
      else if beq c "X"%byte then option_map OSent (nat_of_dec rest)
      else if beq c "O"%byte then
        match split_on "."%byte rest with
        | [a; b] => match nat_of_dec a, nat_of_dec b with Some x, Some y => Some (OEv (EvO x y) false) | _, _ => None end
        | _ => None
        end
      else if beq c "R"%byte then
        match rev rest with
        | l :: r' => if beq l "!"%byte then option_map (fun n => OEv (EvR n) true) (nat_of_dec (rev r'))
                     else option_map (fun n => OEv (EvR n) false) (nat_of_dec rest)
        | [] => None
        end
      else None
  | [] => None
  end.

Definition parse_obs (o : bytes) : option (bool * list oev) :=
  match split_on "#"%byte o with
  | [v; evs] =>
      let hang := lbeq v (B "HANG") in
      if hang || lbeq v (B "OK") then
        if lbeq evs (B "-") then Some (hang, [])
        else option_map (fun l => (hang, l)) (parse_all parse_oev (split_on ","%byte evs))
      else None
  | _ => None
  end.

Definition evs_of (l : list oev) : list ev :=
  flat_map (fun o => match o with OEv e _ => [e] | _ => [] end) l.
