(* C29/Proofs.v — the statements of Properties/C29.v (and the parts C30 reuses), assembled from
   Order.v (arrival order), Progress.v + Invariant.v (lock-order discipline => no deadlock), Replies.v (conservation). *)
From ZV Require Import Base.Bytes C29.Model C29.Spec C29.Steps C29.Order C29.Progress C29.Invariant C29.Replies
  C29.Exec C29.Judge C29.Safe.

(* ---- booleans of the oracle ---- *)
Lemma ev_eqb_eq a b : ev_eqb a b = true <-> a = b.
Proof.
  destruct a, b; cbn; try (split; [discriminate|congruence]); rewrite ?andb_true_iff, ?Nat.eqb_eq;
    split; intros H; try (inversion H; auto); try (destruct H; congruence); congruence.
Qed.

Lemma evl_eqb_eq a : forall b, evl_eqb a b = true -> a = b.
Proof.
  induction a as [|x a IH]; intros [|y b]; cbn; try discriminate; [reflexivity|].
  intros H. apply andb_prop in H. destruct H as [H1 H2]. apply ev_eqb_eq in H1. f_equal; auto.
Qed.

Lemma is_prefix_sound a : forall b, is_prefix a b = true -> prefix_of a b.
Proof.
  induction a as [|x a IH]; intros b H.
  - exists b. reflexivity.
  - destruct b as [|y b]; cbn in H; [discriminate|]. apply andb_prop in H. destruct H as [H1 H2].
    apply ev_eqb_eq in H1. subst y. destruct (IH b H2) as [rest Hr]. exists rest. cbn. now rewrite Hr.
Qed.

Lemma filter_prefix (f : ev -> bool) a b : prefix_of a b -> prefix_of (filter f a) (filter f b).
Proof. intros [rest <-]. exists (filter f rest). now rewrite filter_app. Qed.

Theorem oracle_sound calls l : order_ok calls l = true ->
  prefix_of (filter not_reply (inline_log calls l)) (filter not_reply (sequential_order calls)).
Proof. apply is_prefix_sound. Qed.

(* ---- the arrival-order theorems ---- *)
Theorem order_thm calls tr s : NoDup (map c_id calls) -> reach calls tr s ->
  prefix_of (inline_log calls (log s)) (sequential_order calls).
Proof. intros Hnd. now apply order_invariant. Qed.

Theorem order_complete_thm calls tr s : NoDup (map c_id calls) -> reach calls tr s -> all_done s ->
  inline_log calls (log s) = sequential_order calls.
Proof. intros Hnd. now apply order_final. Qed.

(* ---- no deadlock in the safe class ---- *)
Lemma rank_of_le calls l : rank_of calls l <= 3.
Proof. unfold rank_of. destruct (Nat.eqb l L_root); [lia|]. destruct (memn l (post calls)); [lia|]. destruct (is_user_iface l); lia. Qed.

Theorem safe_progress calls tr s : safe calls = true -> reach calls tr s ->
  (exists lb s', step lb s = Some s') \/ all_done s.
Proof.
  intros Hs Hr. destruct (ok_reach (rank_of calls) calls tr s Hs Hr) as [Hw Ho].
  apply (progress (rank_of calls) 3 (rank_of_le calls) s Hw Ho).
Qed.

Theorem all_reply_thm calls tr s : NoDup (map c_id calls) -> safe calls = true -> reach calls tr s ->
  (forall n, count_ev (EvR n) (log s) <= if memn n (map c_id calls) then 1 else 0) /\
  ((exists lb s', step lb s = Some s') \/ (all_done s /\ replies_ok calls (log s) = true)).
Proof.
  intros Hnd Hs Hr. split.
  - intros n. now apply (replies_at_most_once calls tr s n).
  - destruct (safe_progress calls tr s Hs Hr) as [H|H]; [now left|right]. split; [assumption|].
    now apply (replies_all calls tr s).
Qed.

(* ---- method handlers that await, register, remove, emit are in the safe class ---- *)
Fixpoint root_after (h : bool) (p : list instr) : bool :=
  match p with
  | [] => h
  | i :: r =>
      match i with
      | IRead l | IWrite l => if Nat.eqb l L_root then root_after true r else root_after h r
      | IRUnlock l | IWUnlock l => if Nat.eqb l L_root then root_after false r else root_after h r
      | _ => root_after h r
      end
  end.

Lemma under_root_app p q : forall h, under_root h (p ++ q) = under_root h p ++ under_root (root_after h p) q.
Proof.
  induction p as [|i p IH]; intros h; cbn [app under_root root_after]; [reflexivity|].
  destruct i; try apply IH; destruct (Nat.eqb l L_root); try apply IH; destruct h; cbn; rewrite ?IH; reflexivity.
Qed.

Lemma root_after_app p q : forall h, root_after h (p ++ q) = root_after (root_after h p) q.
Proof.
  induction p as [|i p IH]; intros h; cbn [app root_after]; [reflexivity|].
  destruct i; try apply IH; destruct (Nat.eqb l L_root); apply IH.
Qed.

Lemma plain_ops_root c ops : forallb plain_op ops = true -> forall j,
  under_root false (c_ops c j ops) = [] /\ root_after false (c_ops c j ops) = false.
Proof.
  induction ops as [|o r IH]; intros Hp j; cbn [c_ops]; [split; reflexivity|].
  cbn [forallb] in Hp. apply andb_prop in Hp. destruct Hp as [Ho Hr]. specialize (IH Hr (S j)). destruct IH as [I1 I2].
  rewrite under_root_app, root_after_app.
  assert (Hop : under_root false (c_op c j o) = [] /\ root_after false (c_op c j o) = false).
  { unfold c_op. destruct o; cbn in Ho; try discriminate; cbn; auto.
    rewrite under_root_app, root_after_app.
    assert (Ht : forall h, under_root h (repeat ITau n) = [] /\ root_after h (repeat ITau n) = h)
      by (intros h; induction n; cbn; auto).
    destruct (Ht false) as [-> ->]. cbn. auto. }
  destruct Hop as [-> ->]. cbn. auto.
Qed.

Lemma iface_not_root k : Nat.eqb (L_iface k) L_root = false.
Proof. apply Nat.eqb_neq. unfold L_iface, L_root. lia. Qed.
Lemma props_not_root k : Nat.eqb (L_props k) L_root = false.
Proof. apply Nat.eqb_neq. unfold L_props, L_root. lia. Qed.
Lemma iface_is_user k : is_user_iface (L_iface k) = true.
Proof.
  unfold is_user_iface, L_iface. apply Nat.eqb_eq. rewrite Nat.add_comm, Nat.mul_comm, Nat.mod_add by lia. reflexivity.
Qed.
Lemma props_not_user k : is_user_iface (L_props k) = false.
Proof.
  unfold is_user_iface, L_props. apply Nat.eqb_neq. rewrite Nat.add_comm, Nat.mul_comm, Nat.mod_add by lia. cbn. lia.
Qed.

(* a plain handler (method or property handler; await / at / remove) requests nothing while it holds the root lock *)
Lemma plain_under_root c : plain_handler c = true -> under_root false (body c) = [].
Proof.
  unfold plain_handler, body. intros Hp.
  assert (Hh : forallb plain_op (c_script c) = true -> under_root false (handler c) = [] /\ root_after false (handler c) = false).
  { intros H. unfold handler. cbn [under_root root_after]. rewrite under_root_app, root_after_app.
    destruct (plain_ops_root (c_id c) (c_script c) H 0) as [-> ->]. cbn. auto. }
  assert (Hrr : Nat.eqb L_root L_root = true) by apply Nat.eqb_refl.
  destruct (c_kind c); try discriminate; try reflexivity; destruct (Hh Hp) as [H1 H2]; destruct (c_noreply c);
    cbn [app under_root]; rewrite ?iface_not_root, ?props_not_root, ?Hrr; cbn [under_root];
    rewrite ?iface_not_root, ?props_not_root, ?Hrr;
    repeat (rewrite under_root_app, ?H1, ?H2; cbn [app under_root]; rewrite ?root_after_app, ?H2);
    cbn [app under_root]; rewrite ?iface_not_root, ?props_not_root; reflexivity.
Qed.

Lemma handlers_post calls : handlers_only calls = true -> post calls = [].
Proof.
  unfold handlers_only, post. induction calls as [|c l IH]; cbn; [reflexivity|]. intros H. apply andb_prop in H.
  destruct H as [Hc Hl]. rewrite (plain_under_root c Hc), IH by assumption. reflexivity.
Qed.

Section PlainDisc.
  Variable rank : lock -> nat.
  Hypothesis rank_root : rank L_root = 2.
  Hypothesis rank_iface : forall k, rank (L_iface k) = 1.
  Hypothesis rank_props : forall k, rank (L_props k) = 0.
  Variable sp : call -> bool.

  Lemma disc_taus H n q : disc_gen rank sp H (repeat ITau n ++ q) = disc_gen rank sp H q.
  Proof. induction n; cbn; auto. Qed.

  (* holding only guards that rank below the root lock, every plain operation leaves the held set as it was *)
  Lemma disc_plain_ops c H ops : below rank H L_root = true -> forallb plain_op ops = true -> forall j q,
    disc_gen rank sp H (c_ops c j ops ++ q) = disc_gen rank sp H q.
  Proof.
    intros Hb. induction ops as [|o r IH]; intros Hp j q; cbn [c_ops app]; [reflexivity|].
    cbn [forallb] in Hp. apply andb_prop in Hp. destruct Hp as [Ho Hr]. rewrite <- app_assoc.
    unfold c_op. destruct o; cbn in Ho; try discriminate.
    - rewrite <- app_assoc. rewrite disc_taus. cbn [app disc_gen]. now apply IH.
    - cbn [app disc_gen]. rewrite Hb. unfold memlm. cbn [existsb]. rewrite lm_eqb_refl. cbn [orb remove_lm].
      rewrite lm_eqb_refl. now apply IH.
    - cbn [app disc_gen]. rewrite Hb. unfold memlm. cbn [existsb]. rewrite lm_eqb_refl. cbn [orb remove_lm].
      rewrite lm_eqb_refl. now apply IH.
  Qed.

  Lemma disc_plain_handler c H q : below rank H L_root = true -> forallb plain_op (c_script c) = true ->
    disc_gen rank sp H (handler c ++ q) = disc_gen rank sp H q.
  Proof.
    intros Hb Hp. unfold handler. cbn [app disc_gen]. rewrite <- app_assoc. rewrite disc_plain_ops by assumption. reflexivity.
  Qed.

  Ltac norm :=
    repeat (progress (cbn [app disc_gen below forallb fst existsb remove_lm orb andb Nat.ltb Nat.leb]; unfold memlm;
                      rewrite ?lm_eqb_refl, ?rank_root, ?rank_iface, ?rank_props)).
  Ltac through_handler Hp :=
    rewrite disc_plain_handler; [|norm; reflexivity|exact Hp].

  Lemma disc_plain_body c : plain_handler c = true -> disc_gen rank sp [] (body c) = Some [].
  Proof.
    unfold plain_handler, body. intros Hp. destruct (c_kind c) eqn:K; try discriminate; destruct (c_noreply c);
      try reflexivity; norm; through_handler Hp; try (through_handler Hp); norm; reflexivity.
  Qed.
End PlainDisc.

(* every burst of method and property handlers that await / register / remove / emit respects the lock order *)
Theorem handlers_only_safe calls : handlers_only calls = true -> safe calls = true.
Proof.
  intros Hm. unfold safe, disciplined. apply forallb_forall. intros c Hc.
  assert (Hp : plain_handler c = true) by (unfold handlers_only in Hm; rewrite forallb_forall in Hm; auto).
  assert (Hr : rank_of calls L_root = 2) by reflexivity.
  assert (Hi : forall k, rank_of calls (L_iface k) = 1).
  { intros k. unfold rank_of. rewrite iface_not_root, (handlers_post calls Hm), iface_is_user. reflexivity. }
  assert (Hq : forall k, rank_of calls (L_props k) = 0).
  { intros k. unfold rank_of. rewrite props_not_root, (handlers_post calls Hm), props_not_user. reflexivity. }
  unfold disc_call, Progress.disc_run, dispatch. cbn [app disc_gen below forallb].
  unfold memlm. cbn [existsb]. rewrite lm_eqb_refl. cbn [orb remove_lm]. rewrite lm_eqb_refl.
  pose proof (disc_plain_body (rank_of calls) Hr Hi Hq (body_ok (rank_of calls)) c Hp) as Hb.
  pose proof (disc_plain_body (rank_of calls) Hr Hi Hq (fun _ => false) c Hp) as Hb0.
  destruct (c_kind c) eqn:K; try (unfold plain_handler in Hp; rewrite K in Hp; discriminate);
    try (destruct (c_spawn c); [cbn [disc_gen]; unfold body_ok; now rewrite Hb0|now rewrite Hb]).
  now rewrite Hb.
Qed.

Lemma methods_are_handlers calls : methods_only calls = true -> handlers_only calls = true.
Proof.
  unfold methods_only, handlers_only. rewrite !forallb_forall. intros H c Hc. specialize (H c Hc).
  unfold plain_method in H. unfold plain_handler. destruct (c_kind c); try discriminate; assumption.
Qed.

Theorem methods_only_safe calls : methods_only calls = true -> safe calls = true.
Proof. intros H. apply handlers_only_safe. now apply methods_are_handlers. Qed.

(* ---- the verdicts of the two-phase check are backed by real runs of the model ---- *)
Lemma all_done_b_sound s : wf s -> all_done_b s = true -> all_done s.
Proof.
  intros [_ Hidle] H. unfold all_done_b in H. apply andb_prop in H. destruct H as [H Hi]. apply andb_prop in H.
  destruct H as [Ht Hf]. split; [|split].
  - intros t. destruct (Nat.lt_ge_cases t (ntasks s)) as [Hlt|Hge]; [|now rewrite (Hidle t Hge)].
    rewrite forallb_forall in Ht. specialize (Ht t). rewrite in_seq in Ht. specialize (Ht ltac:(lia)).
    destruct (prog (tasks s t)); [reflexivity|discriminate].
  - destruct (future s); [reflexivity|discriminate].
  - destruct (inbox s); [reflexivity|discriminate].
Qed.

Lemma not_ok (w : bytes) : match w with "O"%byte :: _ => False | _ => True end -> w <> tokOK.
Proof. intros H E. subst w. exact H. Qed.

Theorem explains_ok_sound calls obs : explains_ok calls obs = tokOK ->
  exists tr s, reach calls tr s /\ filter is_soe (log s) = obs /\ all_done s.
Proof.
  unfold explains_ok. destruct (replay (map c_id calls) obs 0 (init calls, [])) as [x|why n].
  2:{ intros H. exfalso. revert H. apply not_ok. exact I. }
  unfold certify_done. destruct (runs (rev (snd x)) (init calls)) as [s|] eqn:Hr; [|intros H; exfalso; revert H; apply not_ok; exact I].
  destruct (evl_eqb (soe (log s)) obs) eqn:He; cbn [negb]; [|intros H; exfalso; revert H; apply not_ok; exact I].
  destruct (all_done_b s) eqn:Hd; [|intros H; exfalso; revert H; apply not_ok; exact I].
  intros _. exists (rev (snd x)), s. split; [exact Hr|]. split; [now apply evl_eqb_eq|].
  apply all_done_b_sound; [eapply wf_reach; exact Hr|assumption].
Qed.

Theorem explains_hang_sound calls rep obs : explains_hang calls rep obs = tokOK ->
  exists tr s, reach calls tr s /\ filter is_soe (log s) = obs /\ stuck s /\ ~ all_done s.
Proof.
  unfold explains_hang. destruct (replay rep obs 0 (init calls, [])) as [x|why n].
  2:{ intros H. exfalso. revert H. apply not_ok. exact I. }
  destruct (fst (search rep 16 x 3000)) as [y|]; [|intros H; exfalso; revert H; apply not_ok; exact I].
  unfold certify_dead. destruct (runs (rev (snd y)) (init calls)) as [s|] eqn:Hr; [|intros H; exfalso; revert H; apply not_ok; exact I].
  destruct (evl_eqb (soe (log s)) obs) eqn:He; cbn [negb]; [|intros H; exfalso; revert H; apply not_ok; exact I].
  destruct (replies_match calls rep (log s)); cbn [negb]; [|intros H; exfalso; revert H; apply not_ok; exact I].
  destruct (none_enabled s) eqn:Hn; cbn [andb]; [|intros H; exfalso; revert H; apply not_ok; exact I].
  destruct (all_done_b s) eqn:Hd; cbn [negb]; [intros H; exfalso; revert H; apply not_ok; exact I|].
  intros _. exists (rev (snd y)), s. split; [exact Hr|]. split; [now apply evl_eqb_eq|].
  assert (Hw : wf s) by (eapply wf_reach; exact Hr).
  split; [apply stuck_b_sound; [assumption|exact Hn]|].
  intros [Hp [Hf Hi]].
  assert (Hb : all_done_b s = true); [|congruence].
  unfold all_done_b. rewrite Hf, Hi. cbn [is_nil]. rewrite !andb_true_r. apply forallb_forall. intros t _. now rewrite Hp.
Qed.

(* ---- non-vacuity: a burst with two inline calls (one &self, one &mut carrying NO_REPLY_EXPECTED; awaits and a registration), one spawned
   call and an unknown object, run to the end under two different schedules ---- *)
Definition ex_calls : list call :=
  [ {| c_id := 0; c_kind := KRef; c_if := 2; c_spawn := false; c_noreply := false; c_script := [OAwait 2; OAt] |};
    {| c_id := 1; c_kind := KMut; c_if := 0; c_spawn := true; c_noreply := false; c_script := [OAwait 1; ORemove] |};
    {| c_id := 2; c_kind := KMut; c_if := 2; c_spawn := false; c_noreply := true; c_script := [OAwait 3] |};
    {| c_id := 3; c_kind := KUnknown; c_if := 0; c_spawn := false; c_noreply := false; c_script := [] |} ].

Example ex_nodup : NoDup (map c_id ex_calls).
Proof. cbn. repeat constructor; cbn; intuition discriminate. Qed.

Example ex_safe : methods_only ex_calls = true /\ safe ex_calls = true.
Proof. split; vm_compute; reflexivity. Qed.

(* a schedule is checked by running it: the statement is a boolean, so the proof term stays small *)
Definition ex_check (calls : list call) (r : list label * sys) : bool :=
  match runs (fst r) (init calls) with
  | Some s => all_done_b s && evl_eqb (inline_log calls (log s)) (sequential_order calls) && replies_ok calls (log s)
  | None => false
  end.

Lemma ex_check_sound calls r : ex_check calls r = true ->
  exists tr s, reach calls tr s /\ all_done s /\ inline_log calls (log s) = sequential_order calls /\
               replies_ok calls (log s) = true.
Proof.
  unfold ex_check. destruct (runs (fst r) (init calls)) as [s|] eqn:Hr; [|discriminate]. intros H.
  apply andb_prop in H. destruct H as [H H3]. apply andb_prop in H. destruct H as [H1 H2].
  exists (fst r), s. split; [exact Hr|]. split; [apply all_done_b_sound; [eapply wf_reach; exact Hr|assumption]|].
  split; [now apply evl_eqb_eq|assumption].
Qed.

Example ex_run_fifo : ex_check ex_calls (auto_run 1000 (init ex_calls) []) = true.
Proof. vm_compute. reflexivity. Qed.

Example ex_run_lifo : ex_check ex_calls (auto_run_rev 1000 (init ex_calls) []) = true.
Proof. vm_compute. reflexivity. Qed.

(* the two schedules really differ: the spawned call 1 is interleaved differently with the inline ones *)
Example ex_runs_differ :
  evl_eqb (log (snd (auto_run 1000 (init ex_calls) []))) (log (snd (auto_run_rev 1000 (init ex_calls) []))) = false.
Proof. vm_compute. reflexivity. Qed.

Example ex_complete_run : exists tr s, reach ex_calls tr s /\ all_done s /\
  inline_log ex_calls (log s) = sequential_order ex_calls /\ replies_ok ex_calls (log s) = true.
Proof. exact (ex_check_sound _ _ ex_run_fifo). Qed.
