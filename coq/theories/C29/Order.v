(* C29/Order.v — inline (spawn-disabled) method calls run one after another in arrival order:
   an invariant of every reachable state, for all scripts and all schedules. *)
From ZV Require Import Base.Bytes C29.Model C29.Spec C29.Steps.

(* ---- the events a program will emit at its own level (spawned bodies not included) ---- *)
Fixpoint tev (p : list instr) : list ev :=
  match p with
  | [] => []
  | IEv e :: r => e :: tev r
  | _ :: r => tev r
  end.

Lemma tev_app p q : tev (p ++ q) = tev p ++ tev q.
Proof. induction p as [|i p IH]; cbn; [reflexivity|]. destruct i; cbn; rewrite ?IH; reflexivity. Qed.

Lemma tev_repeat_tau n : tev (repeat ITau n) = [].
Proof. induction n; cbn; auto. Qed.

Lemma tev_c_op c j o : tev (c_op c j o) = [EvO c j].
Proof. unfold c_op. rewrite tev_app. destruct o; cbn; rewrite ?tev_repeat_tau; reflexivity. Qed.

Lemma tev_c_ops c ops : forall j, tev (c_ops c j ops) = map (EvO c) (seq j (length ops)).
Proof.
  induction ops as [|o r IH]; intros j; cbn; [reflexivity|].
  rewrite tev_app, tev_c_op, IH. reflexivity.
Qed.

Lemma tev_handler c : tev (handler c) = [EvS (c_id c)] ++ op_events (c_id c) (length (c_script c)) ++ [EvE (c_id c)].
Proof. unfold handler. cbn. rewrite tev_app, tev_c_ops. reflexivity. Qed.

Lemma tev_body_method c : is_method (c_kind c) = true -> tev (body c) = handler_events c.
Proof.
  unfold body, handler_events, wants_reply. destruct (c_kind c); cbn [is_method]; try discriminate; intros _;
    destruct (c_noreply c); cbn [negb]; rewrite !tev_app, tev_handler; cbn; rewrite <- !app_assoc; reflexivity.
Qed.

(* every event of the code of call c carries c's id *)
Lemma in_tev_c_ops c e ops : forall j, In e (tev (c_ops c j ops)) -> ev_call e = c.
Proof. intros j. rewrite tev_c_ops. rewrite in_map_iff. intros [x [<- _]]. reflexivity. Qed.

Lemma in_tev_handler c e : In e (tev (handler c)) -> ev_call e = c_id c.
Proof.
  rewrite tev_handler. cbn. rewrite in_app_iff. unfold op_events. rewrite in_map_iff. cbn.
  intros [<-|[[x [<- _]]|[<-|[]]]]; reflexivity.
Qed.

Lemma in_tev_body c e : In e (tev (body c)) -> ev_call e = c_id c.
Proof.
  pose proof (in_tev_handler c e) as Hh.
  unfold body. destruct (c_kind c); destruct (c_noreply c); rewrite ?tev_app; cbn [tev app]; rewrite ?in_app_iff; cbn [In];
    intuition (subst; try reflexivity).
Qed.

Lemma tev_dispatch c : tev (dispatch c) = match c_kind c with KUnknown => tev (body c) | _ => if c_spawn c then [] else tev (body c) end.
Proof. unfold dispatch. cbn. destruct (c_kind c); try reflexivity; destruct (c_spawn c); reflexivity. Qed.

Lemma in_tev_dispatch c e : In e (tev (dispatch c)) -> ev_call e = c_id c.
Proof.
  rewrite tev_dispatch. destruct (c_kind c) eqn:K; try destruct (c_spawn c); cbn [In]; try tauto; apply in_tev_body.
Qed.

Definition flat_instr (i : instr) : bool := match i with IRecv | ISpawn _ => false | _ => true end.

Lemma flat_c_ops c ops : forall j, forallb flat_instr (c_ops c j ops) = true.
Proof.
  induction ops as [|o r IH]; intros j; cbn; [reflexivity|]. rewrite forallb_app, IH, andb_true_r.
  unfold c_op. rewrite forallb_app. cbn. rewrite andb_true_r. destruct o; cbn; try reflexivity.
  induction n; cbn; auto.
Qed.

Lemma flat_handler c : forallb flat_instr (handler c) = true.
Proof. unfold handler. cbn. rewrite forallb_app, flat_c_ops. reflexivity. Qed.

Lemma flat_body c : forallb flat_instr (body c) = true.
Proof.
  pose proof (flat_handler c) as Hh.
  unfold body. destruct (c_kind c); destruct (c_noreply c); rewrite ?forallb_app; cbn [forallb flat_instr app];
    rewrite ?forallb_app, ?Hh; reflexivity.
Qed.

Lemma body_no_recv c : ~ In IRecv (body c).
Proof. intros H. pose proof (flat_body c) as F. rewrite forallb_forall in F. specialize (F _ H). discriminate. Qed.

Lemma body_no_spawn c c' : ~ In (ISpawn c') (body c).
Proof. intros H. pose proof (flat_body c) as F. rewrite forallb_forall in F. specialize (F _ H). discriminate. Qed.

Lemma in_spawn_dispatch c c' : In (ISpawn c') (dispatch c) -> c' = c /\ c_spawn c = true /\ c_kind c <> KUnknown.
Proof.
  unfold dispatch. cbn. intros [H|[H|H]]; try discriminate.
  destruct (c_kind c) eqn:K; try (exfalso; eapply body_no_spawn; rewrite ?K; eassumption);
    destruct (c_spawn c) eqn:Sp; try (exfalso; eapply body_no_spawn; eassumption);
    cbn in H; destruct H as [H|[]]; inversion H; subst; repeat split; congruence.
Qed.

Lemma nodup_map_inj {A} (f : A -> nat) (l : list A) a b :
  NoDup (map f l) -> In a l -> In b l -> f a = f b -> a = b.
Proof.
  induction l as [|x l IH]; cbn; [tauto|]. intros Hnd Ha Hb Hf. inversion Hnd as [|? ? Hx Hl]; subst.
  destruct Ha as [<-|Ha], Hb as [<-|Hb]; auto.
  - exfalso. apply Hx. rewrite Hf. now apply in_map.
  - exfalso. apply Hx. rewrite <- Hf. now apply in_map.
Qed.

Lemma memn_in n l : memn n l = true <-> In n l.
Proof.
  unfold memn. rewrite existsb_exists. split.
  - intros [x [Hx He]]. apply Nat.eqb_eq in He. now subst.
  - intros H. exists n. split; [assumption|apply Nat.eqb_refl].
Qed.

Section Order.
  Variable calls : list call.
  Hypothesis Hnd : NoDup (map c_id calls).

  Definition isin (e : ev) : bool := memn (ev_call e) (inline_ids calls).
  Definition pev (p : list instr) : list ev := filter isin (tev p).

  Lemma pev_app p q : pev (p ++ q) = pev p ++ pev q.
  Proof. unfold pev. now rewrite tev_app, filter_app. Qed.

  Lemma id_inline c : In c calls -> memn (c_id c) (inline_ids calls) = inline c.
  Proof.
    intros Hc. destruct (inline c) eqn:Hi.
    - apply memn_in. unfold inline_ids. apply in_map. apply filter_In. now split.
    - destruct (memn (c_id c) (inline_ids calls)) eqn:Hm; [|reflexivity]. exfalso.
      apply memn_in in Hm. unfold inline_ids in Hm. apply in_map_iff in Hm. destruct Hm as [c' [Hid Hc']].
      apply filter_In in Hc'. destruct Hc' as [Hc' Hi'].
      assert (c' = c) by (eapply nodup_map_inj; eauto). subst. congruence.
  Qed.

  Lemma filter_all {A} (f : A -> bool) l : (forall x, In x l -> f x = true) -> filter f l = l.
  Proof. induction l as [|x l IH]; cbn; intros H; [reflexivity|]. rewrite (H x) by auto. f_equal. apply IH. auto. Qed.
  Lemma filter_none {A} (f : A -> bool) l : (forall x, In x l -> f x = false) -> filter f l = [].
  Proof. induction l as [|x l IH]; cbn; intros H; [reflexivity|]. rewrite (H x) by auto. apply IH. auto. Qed.

  Lemma pev_body c : In c calls -> pev (body c) = if inline c then handler_events c else [].
  Proof.
    intros Hc. unfold pev. destruct (inline c) eqn:Hi.
    - rewrite filter_all.
      + apply tev_body_method. unfold inline in Hi. apply andb_prop in Hi. tauto.
      + intros e He. unfold isin. rewrite (in_tev_body c e He), id_inline, Hi; auto.
    - apply filter_none. intros e He. unfold isin. rewrite (in_tev_body c e He), id_inline, Hi; auto.
  Qed.

  Lemma pev_dispatch c : In c calls -> pev (dispatch c) = if inline c then handler_events c else [].
  Proof.
    intros Hc. destruct (inline c) eqn:Hi.
    - unfold inline in Hi. apply andb_prop in Hi. destruct Hi as [Hs Hm]. apply negb_true_iff in Hs.
      unfold pev. rewrite tev_dispatch, Hs.
      assert (E : tev (body c) = tev (body c)) by reflexivity.
      replace (match c_kind c with KUnknown => tev (body c) | _ => tev (body c) end) with (tev (body c))
        by (destruct (c_kind c); reflexivity).
      fold (pev (body c)). rewrite pev_body by assumption. unfold inline. now rewrite Hs, Hm.
    - unfold pev. apply filter_none. intros e He. unfold isin. rewrite (in_tev_dispatch c e He), id_inline, Hi; auto.
  Qed.

  Lemma flat_map_pending l : incl l calls ->
    flat_map (fun c => pev (dispatch c)) l = flat_map handler_events (filter inline l).
  Proof.
    induction l as [|c l IH]; intros Hi; cbn [flat_map filter]; [reflexivity|].
    rewrite pev_dispatch by (apply Hi; now left). rewrite IH by (intros x Hx; apply Hi; now right).
    destruct (inline c); reflexivity.
  Qed.

  (* the invariant, on the projections of the state it talks about *)
  Definition tail_ok (p0 : list instr) : Prop := p0 = [] \/ exists p, p0 = p ++ [IRecv] /\ ~ In IRecv p.

  Record OInv (pr : nat -> list instr) (pd : list call) (lg : list ev) : Prop := {
    o_sub : incl pd calls;
    o_main : filter isin lg ++ pev (pr 0) ++ flat_map (fun c => pev (dispatch c)) pd = sequential_order calls;
    o_others : forall t, t <> 0 -> pev (pr t) = [] /\ ~ In IRecv (pr t);
    o_spawn : forall t c, In (ISpawn c) (pr t) -> pev (body c) = [];
    o_tail : tail_ok (pr 0)
  }.

  Definition progs (s : sys) : nat -> list instr := fun t => prog (tasks s t).
  Definition pend (s : sys) : list call := inbox s ++ future s.

  Lemma oinv_init : OInv (progs (init calls)) (pend (init calls)) (log (init calls)).
  Proof.
    split; cbn.
    - apply incl_refl.
    - unfold progs, pend. cbn. rewrite flat_map_pending by apply incl_refl. reflexivity.
    - intros t Ht. unfold progs. cbn. destruct (Nat.eqb_spec t 0); [lia|]. cbn. split; [reflexivity|tauto].
    - intros t c. unfold progs. cbn. destruct (Nat.eqb_spec t 0); cbn; intuition discriminate.
    - right. exists []. split; [reflexivity|tauto].
  Qed.

  Lemma tail_pop i r : tail_ok (i :: r) -> tail_ok r.
  Proof.
    intros [H|[p [H Hn]]]; [discriminate|]. destruct p as [|j p]; cbn in H; inversion H; subst.
    - now left.
    - right. exists p. split; [reflexivity|]. intros Hin. apply Hn. now right.
  Qed.

  Lemma tail_recv r : tail_ok (IRecv :: r) -> r = [].
  Proof.
    intros [H|[p [H Hn]]]; [discriminate|]. destruct p as [|j p]; cbn in H; inversion H; subst; [reflexivity|].
    exfalso. apply Hn. now left.
  Qed.

  Lemma dispatch_no_recv c : ~ In IRecv (dispatch c).
  Proof.
    unfold dispatch. cbn. intros [H|[H|H]]; try discriminate.
    destruct (c_kind c) eqn:K; try (eapply body_no_recv; rewrite ?K; eassumption);
      destruct (c_spawn c); try (eapply body_no_recv; eassumption); cbn in H; intuition discriminate.
  Qed.

  (* a task pops an instruction that is neither an event, nor a spawn, nor a receive with a message *)
  Lemma oinv_pop pr pr' pd lg t i r :
    OInv pr pd lg -> pr t = i :: r -> tev [i] = [] ->
    (forall u, pr' u = if Nat.eqb u t then r else pr u) -> OInv pr' pd lg.
  Proof.
    intros [Hs Hm Ho Hsp Ht] Hp Hi Hpr'.
    assert (Hpev : pev (pr t) = pev r).
    { rewrite Hp. change (i :: r) with ([i] ++ r). rewrite pev_app. unfold pev at 1. now rewrite Hi. }
    split; [assumption| | | |].
    - rewrite Hpr'. destruct (Nat.eqb_spec 0 t); [subst t; now rewrite <- Hpev|assumption].
    - intros u Hu. rewrite Hpr'. destruct (Nat.eqb_spec u t); [subst u|now apply Ho].
      destruct (Ho t Hu) as [H1 H2]. split; [now rewrite <- Hpev|]. intros Hin. apply H2. rewrite Hp. now right.
    - intros u c. rewrite Hpr'. destruct (Nat.eqb_spec u t); [subst u|apply Hsp].
      intros Hin. apply (Hsp t). rewrite Hp. now right.
    - rewrite Hpr'. destruct (Nat.eqb_spec 0 t); [subst t; rewrite Hp in Ht; eapply tail_pop; eauto|assumption].
  Qed.

  Lemma oinv_same pr pr' pd lg : OInv pr pd lg -> (forall u, pr' u = pr u) -> OInv pr' pd lg.
  Proof.
    intros [Hs Hm Ho Hsp Ht] He. split; [assumption| | | |].
    - now rewrite He.
    - intros t Hne. rewrite He. now apply Ho.
    - intros t c. rewrite He. apply Hsp.
    - now rewrite He.
  Qed.

  Ltac pop_case HI :=
    match goal with Hp : prog (tasks ?s ?t) = ?i :: ?r |- _ =>
      apply (oinv_pop _ _ _ _ t i r HI Hp);
      [reflexivity | let u := fresh "u" in intros u; cbn; unfold updt; destruct (Nat.eqb u t); reflexivity]
    end.

  Lemma oinv_step s lb s' : wf s -> OInv (progs s) (pend s) (log s) -> step lb s = Some s' ->
    OInv (progs s') (pend s') (log s').
  Proof.
    intros Hwf HI Hst. destruct lb as [t|].
    - assert (Hlt : t < ntasks s).
      { apply wf_live; [assumption|]. unfold step in Hst. destruct (prog (tasks s t)); [discriminate|congruence]. }
      apply step_tstep in Hst.
      inversion Hst; subst; unfold progs, pend in *; cbn [tasks inbox future log set_task set_task_lock].
      + pop_case HI.
      + pop_case HI.
      + apply (oinv_same _ _ _ _ HI). intros u. cbn. unfold updt. destruct (Nat.eqb_spec u t); [now subst|reflexivity].
      + pop_case HI.
      + pop_case HI.
      + pop_case HI.
      + (* an event *)
        destruct HI as [Hs Hm Ho Hsp Ht]. rename H into Hp.
        assert (Hpev : pev (prog (tasks s t)) = (if isin e then [e] else []) ++ pev r).
        { rewrite Hp. unfold pev. cbn. destruct (isin e); reflexivity. }
        split; [assumption| | | |].
        * rewrite filter_app. cbn [filter]. destruct (Nat.eq_dec t 0) as [->|Hne].
          -- rewrite updt_same. cbn [prog]. rewrite Hpev in Hm. rewrite <- Hm.
             destruct (isin e); cbn; rewrite <- ?app_assoc; cbn; rewrite ?app_nil_r; reflexivity.
          -- rewrite updt_other by lia. destruct (Ho t Hne) as [H1 _]. rewrite Hpev in H1.
             destruct (isin e); [discriminate|]. rewrite app_nil_r. exact Hm.
        * intros u Hu. unfold updt. destruct (Nat.eqb_spec u t); [subst u; cbn [prog]|now apply Ho].
          destruct (Ho t Hu) as [H1 H2]. rewrite Hpev in H1. split.
          -- destruct (isin e); [discriminate|exact H1].
          -- intros Hin. apply H2. rewrite Hp. now right.
        * intros u c. unfold updt. destruct (Nat.eqb_spec u t); [subst u; cbn [prog]|apply Hsp].
          intros Hin. apply (Hsp t). rewrite Hp. now right.
        * unfold updt. destruct (Nat.eqb_spec 0 t); [subst t; cbn [prog]; rewrite Hp in Ht; eapply tail_pop; eauto|assumption].
      + (* spawn *)
        destruct HI as [Hs Hm Ho Hsp Ht]. rename H into Hp. destruct Hwf as [Hn1 Hidle].
        assert (Hb : pev (body c) = []) by (apply (Hsp t); rewrite Hp; now left).
        assert (Hpev : pev (prog (tasks s t)) = pev r) by (rewrite Hp; reflexivity).
        split; [assumption| | | |].
        * rewrite updt_other by lia. unfold updt. destruct (Nat.eqb_spec 0 t); [subst t; cbn [prog]; now rewrite <- Hpev|assumption].
        * intros u Hu. destruct (Nat.eq_dec u (ntasks s)) as [->|Hn].
          { rewrite updt_same. cbn [prog]. split; [exact Hb|apply body_no_recv]. }
          rewrite updt_other by assumption.
          unfold updt. destruct (Nat.eqb_spec u t); [subst u; cbn [prog]|now apply Ho].
          destruct (Ho t Hu) as [H1 H2]. split; [now rewrite <- Hpev|]. intros Hin. apply H2. rewrite Hp. now right.
        * intros u c'. destruct (Nat.eq_dec u (ntasks s)) as [->|Hn].
          { rewrite updt_same. cbn [prog]. intros Hin. exfalso. eapply body_no_spawn; eauto. }
          rewrite updt_other by assumption.
          unfold updt. destruct (Nat.eqb_spec u t); [subst u; cbn [prog]|apply Hsp].
          intros Hin. apply (Hsp t). rewrite Hp. now right.
        * rewrite updt_other by lia. unfold updt. destruct (Nat.eqb_spec 0 t); [subst t; cbn [prog]; rewrite Hp in Ht; eapply tail_pop; eauto|assumption].
      + (* receive *)
        destruct HI as [Hs Hm Ho Hsp Ht]. rename H into Hp. rename H0 into Hib.
        assert (t = 0).
        { destruct (Nat.eq_dec t 0) as [|n]; [assumption|]. exfalso. destruct (Ho t n) as [_ H2]. apply H2. rewrite Hp. now left. }
        subst t. rewrite Hib in *. cbn [app] in *.
        assert (Hc : In c calls) by (apply Hs; now left).
        rewrite Hp in Ht. apply tail_recv in Ht. subst r.
        split.
        * intros x Hx. apply Hs. now right.
        * rewrite updt_same. cbn [prog]. rewrite pev_app. rewrite Hp in Hm. cbn [flat_map] in Hm.
          unfold pev at 1 in Hm. unfold pev at 2. cbn [tev filter app] in *. rewrite app_nil_r. rewrite <- Hm.
          reflexivity.
        * intros u Hu. rewrite updt_other by assumption. now apply Ho.
        * intros u c'. unfold updt. destruct (Nat.eqb_spec u 0); [subst u; cbn [prog]|apply Hsp].
          rewrite in_app_iff. intros [Hin|Hin].
          -- apply in_spawn_dispatch in Hin. destruct Hin as [-> [Hsw _]]. rewrite pev_body by assumption.
             unfold inline. now rewrite Hsw.
          -- cbn in Hin. intuition discriminate.
        * rewrite updt_same. cbn [prog]. right. exists (dispatch c). split; [reflexivity|apply dispatch_no_recv].
      + pop_case HI.
    - apply step_arrive in Hst. destruct Hst as [c [r [Hf ->]]]. unfold progs, pend in *. cbn [tasks inbox future log].
      rewrite Hf in HI. rewrite <- app_assoc. exact HI.
  Qed.

  Lemma oinv_reach tr s : reach calls tr s -> OInv (progs s) (pend s) (log s).
  Proof.
    intros Hr. assert (H : wf s /\ OInv (progs s) (pend s) (log s)); [|tauto].
    revert tr s Hr. unfold reach. apply reach_ind.
    - split; [apply wf_init|apply oinv_init].
    - intros s lb s' [Hw Ho] Hst. split; [eapply wf_step; eauto|eapply oinv_step; eauto].
  Qed.

  (* the sub-log of the inline calls is a prefix of their sequential execution in arrival order *)
  Theorem order_invariant tr s : reach calls tr s -> prefix_of (inline_log calls (log s)) (sequential_order calls).
  Proof.
    intros Hr. destruct (oinv_reach tr s Hr) as [_ Hm _ _ _]. unfold prefix_of.
    eexists. unfold inline_log. exact Hm.
  Qed.

  (* ... and when nothing is left to run, all of it has happened *)
  Theorem order_final tr s : reach calls tr s -> all_done s -> inline_log calls (log s) = sequential_order calls.
  Proof.
    intros Hr [Hd [Hf Hi]]. destruct (oinv_reach tr s Hr) as [_ Hm _ _ _].
    unfold progs, pend in Hm. rewrite Hd, Hf, Hi in Hm. cbn in Hm. rewrite app_nil_r in Hm. exact Hm.
  Qed.
End Order.
