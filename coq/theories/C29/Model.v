(* C29/Model.v — executable small-step mirror of the method-call dispatch of the zbus object server
   (shared by C29 and C30).  No proofs in this file.

   Mirrored code (line by line in docs/C29.md):
     zbus/src/connection/mod.rs          start_object_server: the dispatch task
                                             while let Some(msg) = stream.next().await { server.dispatch_call(&msg,&hdr).await }
     zbus/src/object_server/mod.rs       dispatch_call / dispatch_method_call_try:
                                             { let root = self.root.read().await; look the interface up }   (guard dropped)
                                             if with_spawn { executor.spawn(dispatch_call_to_iface(..)).detach() }
                                             else { self.dispatch_call_to_iface(..).await }                 (inline)
                                         dispatch_call_to_iface:
                                             let read_lock = iface.read().await;
                                             match read_lock.call(..) { Async(f) => return f.await, RequiresMut => {} .. }
                                             drop(read_lock); let mut write_lock = iface.write().await;
                                             match write_lock.call_mut(..) { Async(f) => return f.await, .. }
                                         ObjectServer::at / remove:   let mut root = self.root.write().await; ..  (to the end)
                                         ObjectServer::interface:     let root = self.root().read().await; .. lock.read().await ..
     zbus/src/fdo/properties.rs          Properties::get / set / get_all (as repaired by /repo commit d9501501):
                                             let iface = { let root = server.root().read().await; look the interface up };
                                                                                              (root guard dropped at once)
                                             iface.instance.read().await.get(..).await   /   .set(..) -> Async(f) => f.await
                                             / RequiresMut => iface.instance.write().await.set_mut(..).await
     zbus/src/fdo/introspectable.rs      Introspectable::introspect:  root read guard kept while every interface of the
                                             node is read-locked in turn
     zbus_macros/src/iface.rs            spawn_tasks_for_methods() = the `spawn` attribute; `&mut self` methods answer
                                         RequiresMut from `call`; the reply is sent inside the future returned by call/call_mut
     async-lock 3.4.1 rwlock/raw.rs      RawRwLock: a reader is admitted iff WRITER_BIT is clear; a writer first takes the
                                         writer mutex and sets WRITER_BIT (from then on no new reader), then waits until the
                                         reader count is 0 ("write-preferring", as its documentation says)

   One step = one atomic action of one task (or the arrival of the next call).  Which enabled action comes
   next is not restricted: the label sequence IS the scheduler. *)
From ZV Require Import Base.Bytes.

(* ---- locks ---- *)
Definition lock := nat.
Definition L_root : lock := 0.
Definition L_iface (k : nat) : lock := 3 * k + 1.     (* the user interface instance k *)
Definition L_props (k : nat) : lock := 3 * k + 2.     (* the org.freedesktop.DBus.Properties instance of k's node *)
Definition L_intro (k : nat) : lock := 3 * k + 3.     (* the org.freedesktop.DBus.Introspectable instance of k's node *)

(* readers = tasks holding a read guard; writer = Some (t, false): t owns the writer mutex, WRITER_BIT is set, t waits
   for the readers to leave; Some (t, true): t holds the write guard *)
Record lstate := { readers : list nat; writer : option (nat * bool) }.

(* ---- what a handler does: a finite script of awaits and object-server operations ---- *)
Inductive op :=
  | OAwait (n : nat)      (* n awaits that complete by themselves: yield_now, a timer, sending a signal *)
  | OAt                   (* object_server().at(..)      : root write lock for the whole call *)
  | ORemove               (* object_server().remove(..)  : the same lock script *)
  | OIface (k : nat).     (* object_server().interface::<_, I>(path of k): root read, then read lock of k, both dropped *)

Inductive ckind :=
  | KMut | KRef           (* a method taking &mut self / &self *)
  | KGet | KGetAll        (* Properties.Get / GetAll: the script is the getter's (run twice by GetAll: two properties) *)
  | KSetMut | KSetRef     (* Properties.Set with a &mut self / &self setter (emits_changed_signal = false) *)
  | KIntro                (* Introspectable.Introspect on the node of the interface *)
  | KUnknown.             (* no such object / interface: error reply from the dispatch task itself *)

(* c_noreply: the call carries the NO_REPLY_EXPECTED header flag (fire-and-forget) *)
Record call := { c_id : nat; c_kind : ckind; c_if : nat; c_spawn : bool; c_noreply : bool; c_script : list op }.

(* observable events (the harness logs exactly these) *)
Inductive ev :=
  | EvS (c : nat)         (* handler of call c starts *)
  | EvO (c j : nat)       (* operation j of that handler has completed *)
  | EvE (c : nat)         (* handler ends *)
  | EvR (c : nat).        (* the reply (or error reply) of call c is sent *)

Inductive instr :=
  | IRead (l : lock) | IRUnlock (l : lock)
  | IWrite (l : lock) | IWUnlock (l : lock)
  | ITau                  (* an await that completes by itself *)
  | IEv (e : ev)
  | ISpawn (c : call)     (* executor.spawn(dispatch_call_to_iface(..)) for call c *)
  | IRecv.                (* stream.next().await of the dispatch task *)

(* ---- the code paths as instruction sequences ---- *)
Definition c_op (c j : nat) (o : op) : list instr :=
  match o with
  | OAwait n => repeat ITau n
  | OAt | ORemove => [IWrite L_root; IWUnlock L_root]
  | OIface k => [IRead L_root; IRead (L_iface k); IRUnlock (L_iface k); IRUnlock L_root]
  end ++ [IEv (EvO c j)].

Fixpoint c_ops (c j : nat) (ops : list op) : list instr :=
  match ops with
  | [] => []
  | o :: r => c_op c j o ++ c_ops c (S j) r
  end.

Definition handler (c : call) : list instr :=
  IEv (EvS (c_id c)) :: c_ops (c_id c) 0 (c_script c) ++ [IEv (EvE (c_id c))].

(* dispatch_call_to_iface (and, for the Properties / Introspectable calls, the body of the fdo method it runs) *)
Definition body (c : call) : list instr :=
  let k := c_if c in
  (* the code generated by #[interface] / DispatchResult::new_async skips the reply when the call does not want one;
     Connection::reply_dbus_error (unknown object) does not look at the flag.  NOTHING ELSE depends on the flag: in
     particular not the decision to spawn *)
  let err_reply := IEv (EvR (c_id c)) in
  let reply := if c_noreply c then ITau else IEv (EvR (c_id c)) in
  match c_kind c with
  | KRef => [IRead (L_iface k)] ++ handler c ++ [reply; IRUnlock (L_iface k)]
  | KMut => [IRead (L_iface k); IRUnlock (L_iface k); IWrite (L_iface k)] ++ handler c ++ [reply; IWUnlock (L_iface k)]
  | KGet | KSetRef =>
      [IRead (L_props k); IRead L_root; IRUnlock L_root; IRead (L_iface k)] ++ handler c
      ++ [IRUnlock (L_iface k); reply; IRUnlock (L_props k)]
  | KGetAll =>
      [IRead (L_props k); IRead L_root; IRUnlock L_root; IRead (L_iface k)] ++ handler c ++ handler c
      ++ [IRUnlock (L_iface k); reply; IRUnlock (L_props k)]
  | KSetMut =>
      [IRead (L_props k); IRead L_root; IRUnlock L_root; IRead (L_iface k); IRUnlock (L_iface k); IWrite (L_iface k)]
      ++ handler c ++ [IWUnlock (L_iface k); reply; IRUnlock (L_props k)]
  | KIntro =>
      [IRead (L_intro k); IRead L_root; IRead (L_iface k); IRUnlock (L_iface k); IRUnlock L_root; reply; IRUnlock (L_intro k)]
  | KUnknown => [err_reply]
  end.

(* dispatch_method_call_try as run by the dispatch task for one message *)
Definition dispatch (c : call) : list instr :=
  [IRead L_root; IRUnlock L_root] ++
  match c_kind c with
  | KUnknown => body c
  | _ => if c_spawn c then [ISpawn c] else body c
  end.

(* ---- state ---- *)
(* held is ghost: the guards the task owns, with their mode (true = write); it never influences a step *)
Record task := { prog : list instr; held : list (lock * bool) }.

Record sys := {
  tasks : nat -> task;            (* task 0 is the dispatch task; spawned tasks get the next free index *)
  ntasks : nat;
  locks : lock -> lstate;
  future : list call;             (* calls the peer has sent that have not reached the dispatch task's stream yet *)
  inbox : list call;              (* the stream of the dispatch task (FIFO) *)
  log : list ev
}.

Definition idle : task := {| prog := []; held := [] |}.
Definition free : lstate := {| readers := []; writer := None |}.

Definition init (calls : list call) : sys :=
  {| tasks := fun t => if Nat.eqb t 0 then {| prog := [IRecv]; held := [] |} else idle;
     ntasks := 1; locks := fun _ => free; future := calls; inbox := []; log := [] |}.

Definition updt (f : nat -> task) (t : nat) (v : task) : nat -> task := fun u => if Nat.eqb u t then v else f u.
Definition updl (f : lock -> lstate) (l : lock) (v : lstate) : lock -> lstate := fun m => if Nat.eqb m l then v else f m.

Fixpoint remove_one (n : nat) (l : list nat) : list nat :=
  match l with
  | [] => []
  | x :: r => if Nat.eqb x n then r else x :: remove_one n r
  end.

Definition lm_eqb (a b : lock * bool) : bool := Nat.eqb (fst a) (fst b) && Bool.eqb (snd a) (snd b).
Fixpoint remove_lm (x : lock * bool) (l : list (lock * bool)) : list (lock * bool) :=
  match l with
  | [] => []
  | y :: r => if lm_eqb y x then r else y :: remove_lm x r
  end.

Definition memn (n : nat) (l : list nat) : bool := existsb (Nat.eqb n) l.
Definition is_nil {A} (l : list A) : bool := match l with [] => true | _ => false end.

Inductive label :=
  | LTask (t : nat)       (* task t performs its next instruction *)
  | LArrive.              (* the socket reader hands the next call to the dispatch task's stream *)

Definition set_task (s : sys) (t : nat) (v : task) : sys :=
  {| tasks := updt (tasks s) t v; ntasks := ntasks s; locks := locks s; future := future s; inbox := inbox s; log := log s |}.
Definition set_task_lock (s : sys) (t : nat) (v : task) (l : lock) (ls : lstate) : sys :=
  {| tasks := updt (tasks s) t v; ntasks := ntasks s; locks := updl (locks s) l ls; future := future s; inbox := inbox s;
     log := log s |}.

(* None = the label is not enabled in this state *)
Definition step (lb : label) (s : sys) : option sys :=
  match lb with
  | LArrive =>
      match future s with
      | c :: r => Some {| tasks := tasks s; ntasks := ntasks s; locks := locks s; future := r; inbox := inbox s ++ [c];
                          log := log s |}
      | [] => None
      end
  | LTask t =>
      let tk := tasks s t in
      match prog tk with
      | [] => None
      | i :: r =>
          match i with
          | IRead l =>
              let ls := locks s l in
              match writer ls with
              | None => Some (set_task_lock s t {| prog := r; held := (l, false) :: held tk |} l
                                            {| readers := t :: readers ls; writer := None |})
              | Some _ => None                                   (* WRITER_BIT set: wait for "no writer" *)
              end
          | IRUnlock l =>
              let ls := locks s l in
              if memn t (readers ls)
              then Some (set_task_lock s t {| prog := r; held := remove_lm (l, false) (held tk) |} l
                                       {| readers := remove_one t (readers ls); writer := writer ls |})
              else None
          | IWrite l =>
              let ls := locks s l in
              match writer ls with
              | None =>                                          (* writer mutex free: take it, set WRITER_BIT *)
                  Some (set_task_lock s t tk l {| readers := readers ls; writer := Some (t, false) |})
              | Some (u, false) =>                               (* WaitingReaders *)
                  if Nat.eqb u t && is_nil (readers ls)
                  then Some (set_task_lock s t {| prog := r; held := (l, true) :: held tk |} l
                                           {| readers := []; writer := Some (t, true) |})
                  else None
              | Some (_, true) => None
              end
          | IWUnlock l =>
              let ls := locks s l in
              match writer ls with
              | Some (u, true) =>
                  if Nat.eqb u t
                  then Some (set_task_lock s t {| prog := r; held := remove_lm (l, true) (held tk) |} l
                                           {| readers := readers ls; writer := None |})
                  else None
              | _ => None
              end
          | ITau => Some (set_task s t {| prog := r; held := held tk |})
          | IEv e =>
              Some {| tasks := updt (tasks s) t {| prog := r; held := held tk |}; ntasks := ntasks s; locks := locks s;
                      future := future s; inbox := inbox s; log := log s ++ [e] |}
          | ISpawn c =>
              Some {| tasks := updt (updt (tasks s) t {| prog := r; held := held tk |}) (ntasks s)
                                    {| prog := body c; held := [] |};
                      ntasks := S (ntasks s); locks := locks s; future := future s; inbox := inbox s; log := log s |}
          | IRecv =>
              match inbox s with
              | c :: q =>
                  Some {| tasks := updt (tasks s) t {| prog := dispatch c ++ IRecv :: r; held := held tk |};
                          ntasks := ntasks s; locks := locks s; future := future s; inbox := q; log := log s |}
              | [] =>
                  match future s with
                  | [] => Some (set_task s t {| prog := r; held := held tk |})      (* the stream has ended *)
                  | _ :: _ => None                                                    (* wait for the next message *)
                  end
              end
          end
      end
  end.

Fixpoint runs (tr : list label) (s : sys) : option sys :=
  match tr with
  | [] => Some s
  | lb :: r => match step lb s with Some s' => runs r s' | None => None end
  end.

Definition reach (calls : list call) (tr : list label) (s : sys) : Prop := runs tr (init calls) = Some s.

(* every task has run to completion, nothing is left to arrive *)
Definition all_done (s : sys) : Prop := (forall t, prog (tasks s t) = []) /\ future s = [] /\ inbox s = [].

(* nothing at all can happen *)
Definition stuck (s : sys) : Prop := forall lb, step lb s = None.
