(* C29/Steps.v — the step function seen as a relation (one constructor per atomic action), basic facts about
   updates, and the well-formedness invariant "task slots from ntasks on are unused". *)
From ZV Require Import Base.Bytes C29.Model.

Lemma updt_same f t v : updt f t v t = v.
Proof. unfold updt. now rewrite Nat.eqb_refl. Qed.
Lemma updt_other f t v u : u <> t -> updt f t v u = f u.
Proof. intros H. unfold updt. destruct (Nat.eqb_spec u t); congruence. Qed.
Lemma updl_same f l v : updl f l v l = v.
Proof. unfold updl. now rewrite Nat.eqb_refl. Qed.
Lemma updl_other f l v m : m <> l -> updl f l v m = f m.
Proof. intros H. unfold updl. destruct (Nat.eqb_spec m l); congruence. Qed.

(* what task t did, and the state it leads to *)
Inductive tstep (s : sys) (t : nat) : sys -> Prop :=
  | ts_read l r :
      prog (tasks s t) = IRead l :: r -> writer (locks s l) = None ->
      tstep s t (set_task_lock s t {| prog := r; held := (l, false) :: held (tasks s t) |} l
                               {| readers := t :: readers (locks s l); writer := None |})
  | ts_runlock l r :
      prog (tasks s t) = IRUnlock l :: r -> memn t (readers (locks s l)) = true ->
      tstep s t (set_task_lock s t {| prog := r; held := remove_lm (l, false) (held (tasks s t)) |} l
                               {| readers := remove_one t (readers (locks s l)); writer := writer (locks s l) |})
  | ts_wbegin l r :
      prog (tasks s t) = IWrite l :: r -> writer (locks s l) = None ->
      tstep s t (set_task_lock s t (tasks s t) l {| readers := readers (locks s l); writer := Some (t, false) |})
  | ts_wacquire l r :
      prog (tasks s t) = IWrite l :: r -> writer (locks s l) = Some (t, false) -> readers (locks s l) = [] ->
      tstep s t (set_task_lock s t {| prog := r; held := (l, true) :: held (tasks s t) |} l
                               {| readers := []; writer := Some (t, true) |})
  | ts_wunlock l r :
      prog (tasks s t) = IWUnlock l :: r -> writer (locks s l) = Some (t, true) ->
      tstep s t (set_task_lock s t {| prog := r; held := remove_lm (l, true) (held (tasks s t)) |} l
                               {| readers := readers (locks s l); writer := None |})
  | ts_tau r :
      prog (tasks s t) = ITau :: r ->
      tstep s t (set_task s t {| prog := r; held := held (tasks s t) |})
  | ts_ev e r :
      prog (tasks s t) = IEv e :: r ->
      tstep s t {| tasks := updt (tasks s) t {| prog := r; held := held (tasks s t) |}; ntasks := ntasks s;
                   locks := locks s; future := future s; inbox := inbox s; log := log s ++ [e] |}
  | ts_spawn c r :
      prog (tasks s t) = ISpawn c :: r ->
      tstep s t {| tasks := updt (updt (tasks s) t {| prog := r; held := held (tasks s t) |}) (ntasks s)
                                 {| prog := body c; held := [] |};
                   ntasks := S (ntasks s); locks := locks s; future := future s; inbox := inbox s; log := log s |}
  | ts_recv c q r :
      prog (tasks s t) = IRecv :: r -> inbox s = c :: q ->
      tstep s t {| tasks := updt (tasks s) t {| prog := dispatch c ++ IRecv :: r; held := held (tasks s t) |};
                   ntasks := ntasks s; locks := locks s; future := future s; inbox := q; log := log s |}
  | ts_eos r :
      prog (tasks s t) = IRecv :: r -> inbox s = [] -> future s = [] ->
      tstep s t (set_task s t {| prog := r; held := held (tasks s t) |}).

Lemma step_tstep s t s' : step (LTask t) s = Some s' -> tstep s t s'.
Proof.
  unfold step. destruct (prog (tasks s t)) as [|i r] eqn:Hp; [discriminate|].
  destruct i.
  - destruct (writer (locks s l)) eqn:Hw; [discriminate|]. intros H; inversion H; subst. eapply ts_read; eassumption.
  - destruct (memn t (readers (locks s l))) eqn:Hm; [|discriminate]. intros H; inversion H; subst. eapply ts_runlock; eassumption.
  - destruct (writer (locks s l)) as [[u [|]]|] eqn:Hw; try discriminate.
    + destruct (Nat.eqb_spec u t); cbn [andb]; [|discriminate]. subst u.
      destruct (readers (locks s l)) eqn:Hr; cbn [is_nil]; [|discriminate].
      intros H; inversion H; subst. eapply ts_wacquire; eassumption.
    + intros H; inversion H; subst. eapply ts_wbegin; eassumption.
  - destruct (writer (locks s l)) as [[u [|]]|] eqn:Hw; try discriminate.
    destruct (Nat.eqb_spec u t); [|discriminate]. subst u.
    intros H; inversion H; subst. eapply ts_wunlock; eassumption.
  - intros H; inversion H; subst. eapply ts_tau; eassumption.
  - intros H; inversion H; subst. eapply ts_ev; eassumption.
  - intros H; inversion H; subst. eapply ts_spawn; eassumption.
  - destruct (inbox s) as [|c q] eqn:Hi.
    + destruct (future s) eqn:Hf; [|discriminate]. intros H; inversion H; subst. eapply ts_eos; eassumption.
    + intros H; inversion H; subst. eapply ts_recv; eassumption.
Qed.

Lemma tstep_step s t s' : tstep s t s' -> step (LTask t) s = Some s'.
Proof.
  intros H; inversion H; subst; unfold step;
    repeat match goal with E : prog _ = _ |- _ => rewrite E end;
    repeat match goal with E : writer _ = _ |- _ => rewrite E end;
    repeat match goal with E : memn _ _ = _ |- _ => rewrite E end;
    repeat match goal with E : inbox _ = _ |- _ => rewrite E end;
    repeat match goal with E : future _ = _ |- _ => rewrite E end;
    repeat match goal with E : readers _ = _ |- _ => rewrite E end;
    rewrite ?Nat.eqb_refl; cbn [andb is_nil]; try reflexivity.
Qed.

Lemma step_arrive s s' : step LArrive s = Some s' ->
  exists c r, future s = c :: r /\
    s' = {| tasks := tasks s; ntasks := ntasks s; locks := locks s; future := r; inbox := inbox s ++ [c]; log := log s |}.
Proof. cbn. destruct (future s) as [|c r]; [discriminate|]. intros H; inversion H. now exists c, r. Qed.

(* ---- generic induction principle over runs ---- *)
Lemma run_app tr1 tr2 s : runs (tr1 ++ tr2) s = match runs tr1 s with Some s1 => runs tr2 s1 | None => None end.
Proof. revert s; induction tr1 as [|lb tr1 IH]; intros s; cbn; [reflexivity|]. destruct (step lb s); auto. Qed.

Lemma run_snoc tr lb s s2 : runs (tr ++ [lb]) s = Some s2 -> exists s1, runs tr s = Some s1 /\ step lb s1 = Some s2.
Proof.
  rewrite run_app. destruct (runs tr s) as [s1|]; [|discriminate]. cbn.
  destruct (step lb s1) as [s'|] eqn:E; [|discriminate]. intros H; inversion H; subst. now exists s1.
Qed.

Lemma reach_ind (P : sys -> Prop) s0 :
  P s0 -> (forall s lb s', P s -> step lb s = Some s' -> P s') ->
  forall tr s, runs tr s0 = Some s -> P s.
Proof.
  intros H0 HS tr. induction tr as [|lb tr IH] using rev_ind; intros s Hr.
  - cbn in Hr. inversion Hr; subst; exact H0.
  - apply run_snoc in Hr. destruct Hr as [s1 [Hr1 Hst]]. apply (HS s1 lb s); [apply IH; exact Hr1 | exact Hst].
Qed.

(* ---- unused task slots ---- *)
Definition wf (s : sys) : Prop := 1 <= ntasks s /\ forall t, ntasks s <= t -> tasks s t = idle.

Lemma wf_init calls : wf (init calls).
Proof. split; cbn; [lia|]. intros t Ht. destruct (Nat.eqb_spec t 0); [lia|reflexivity]. Qed.

Lemma wf_live s t : wf s -> prog (tasks s t) <> [] -> t < ntasks s.
Proof.
  intros [_ H] Hp. destruct (Nat.lt_ge_cases t (ntasks s)) as [|Hge]; [assumption|].
  rewrite (H t Hge) in Hp. cbn in Hp. congruence.
Qed.

Lemma wf_step s lb s' : wf s -> step lb s = Some s' -> wf s'.
Proof.
  intros Hwf Hst. destruct lb as [t|].
  - assert (Hlt : t < ntasks s).
    { apply wf_live; [assumption|]. unfold step in Hst. destruct (prog (tasks s t)); [discriminate|congruence]. }
    destruct Hwf as [H1 H2]. apply step_tstep in Hst.
    inversion Hst; subst; split; cbn; try lia; intros u Hu;
      try (rewrite updt_other by lia; apply H2; lia).
    rewrite !updt_other by lia. apply H2; lia.
  - apply step_arrive in Hst. destruct Hst as [c [r [_ ->]]]. exact Hwf.
Qed.

Lemma wf_reach calls tr s : reach calls tr s -> wf s.
Proof. unfold reach. apply reach_ind; [apply wf_init|]. intros; eapply wf_step; eauto. Qed.

(* decidable "nothing can step", sound for well-formed states *)
Definition stuck_b (s : sys) : bool :=
  forallb (fun t => match step (LTask t) s with None => true | Some _ => false end) (seq 0 (ntasks s))
  && match step LArrive s with None => true | Some _ => false end.

Lemma stuck_b_sound s : wf s -> stuck_b s = true -> stuck s.
Proof.
  intros Hwf H. apply andb_prop in H. destruct H as [Ht Ha]. intros [t|].
  - destruct (Nat.lt_ge_cases t (ntasks s)) as [Hlt|Hge].
    + rewrite forallb_forall in Ht. specialize (Ht t). rewrite in_seq in Ht.
      destruct (step (LTask t) s); [|reflexivity]. discriminate Ht. lia.
    + destruct Hwf as [_ H2]. unfold step. rewrite (H2 t Hge). reflexivity.
  - destruct (step LArrive s); [discriminate|reflexivity].
Qed.
