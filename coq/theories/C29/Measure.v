(* C29/Measure.v — every run is finite, with an explicit bound: each step consumes an instruction, sets WRITER_BIT,
   receives a message or lets one arrive, and each of these decreases a measure by exactly one.  Together with
   [progress] (some step is enabled until everything has finished) this is the liveness half of "every call gets its
   reply": however the scheduler chooses, after at most [run_bound calls] steps nothing is left to do. *)
From ZV Require Import Base.Bytes C29.Model C29.Spec C29.Steps C29.Order C29.Replies.

(* weight of an instruction: a write acquisition takes two steps *)
Definition wt2 (i : instr) : nat := match i with IWrite _ => 2 | _ => 1 end.

Definition wflag (w : option (nat * bool)) (t : nat) : nat :=
  match w with Some (u, false) => if Nat.eqb u t then 1 else 0 | _ => 0 end.

(* 1 if task t owns the writer mutex of the lock it is asking for and waits for the readers to leave *)
Definition pend (s : sys) (t : nat) : nat :=
  match prog (tasks s t) with
  | IWrite l :: _ => wflag (writer (locks s l)) t
  | _ => 0
  end.

Definition P (s : sys) : nat := tsum (pend s) (ntasks s).
Definition mu (s : sys) : nat := total wt2 s + length (inbox s) + 2 * length (future s).
Definition run_bound (calls : list call) : nat := total wt2 (init calls) + 2 * length calls.

(* a task is in the WaitingReaders state only of the lock at the head of its program *)
Definition pinv (s : sys) : Prop :=
  forall t l, writer (locks s l) = Some (t, false) -> exists r, prog (tasks s t) = IWrite l :: r.

Lemma pinv_init calls : pinv (init calls).
Proof. intros t l. cbn. discriminate. Qed.

Lemma pinv_step s lb s' : wf s -> pinv s -> step lb s = Some s' -> pinv s'.
Proof.
  intros Hwf K4 Hst. destruct lb as [t|].
  2:{ apply step_arrive in Hst. destruct Hst as [c [q [Hf ->]]]. exact K4. }
  destruct Hwf as [Hn1 Hidle]. pose proof (Hidle (ntasks s) (le_n _)) as Hnew.
  apply step_tstep in Hst.
  inversion Hst; subst; rename H into Hp; intros u l'; cbn [tasks locks set_task set_task_lock].
  - unfold updl. destruct (Nat.eqb_spec l' l); [cbn; discriminate|]. intros Hw'.
    destruct (K4 u l' Hw') as [r' Hr']. unfold updt. destruct (Nat.eqb_spec u t); [subst; congruence|eauto].
  - intros Hw'. assert (Hw : writer (locks s l') = Some (u, false)).
    { revert Hw'. unfold updl. destruct (Nat.eqb_spec l' l); [subst; cbn; auto|auto]. }
    destruct (K4 u l' Hw) as [r' Hr']. unfold updt. destruct (Nat.eqb_spec u t); [subst; congruence|eauto].
  - unfold updl. destruct (Nat.eqb_spec l' l).
    + subst. cbn. intros E. inversion E; subst. exists r. unfold updt. now rewrite Nat.eqb_refl.
    + intros Hw'. destruct (K4 u l' Hw') as [r' Hr']. unfold updt. destruct (Nat.eqb_spec u t); [subst; eauto|eauto].
  - unfold updl. destruct (Nat.eqb_spec l' l); [cbn; discriminate|]. intros Hw'.
    destruct (K4 u l' Hw') as [r' Hr']. unfold updt. destruct (Nat.eqb_spec u t); [subst; congruence|eauto].
  - unfold updl. destruct (Nat.eqb_spec l' l); [cbn; discriminate|]. intros Hw'.
    destruct (K4 u l' Hw') as [r' Hr']. unfold updt. destruct (Nat.eqb_spec u t); [subst; congruence|eauto].
  - intros Hw'. destruct (K4 u l' Hw') as [r' Hr']. unfold updt. destruct (Nat.eqb_spec u t); [subst; congruence|eauto].
  - intros Hw'. destruct (K4 u l' Hw') as [r' Hr']. unfold updt. destruct (Nat.eqb_spec u t); [subst; congruence|eauto].
  - intros Hw'. destruct (K4 u l' Hw') as [r' Hr'].
    destruct (Nat.eq_dec u (ntasks s)) as [->|Hn]; [rewrite Hnew in Hr'; discriminate|].
    rewrite updt_other by assumption. unfold updt. destruct (Nat.eqb_spec u t); [subst; congruence|eauto].
  - intros Hw'. destruct (K4 u l' Hw') as [r' Hr']. unfold updt. destruct (Nat.eqb_spec u t); [subst; congruence|eauto].
  - intros Hw'. destruct (K4 u l' Hw') as [r' Hr']. unfold updt. destruct (Nat.eqb_spec u t); [subst; congruence|eauto].
Qed.

Lemma tsum_le n F G : (forall u, u < n -> F u <= G u) -> tsum F n <= tsum G n.
Proof.
  induction n as [|n IH]; intros H; cbn; [lia|]. specialize (IH ltac:(intros; apply H; lia)). pose proof (H n ltac:(lia)). lia.
Qed.

Lemma pend_le_W s t : pend s t <= W wt2 (prog (tasks s t)).
Proof.
  unfold pend. destruct (prog (tasks s t)) as [|i r]; [lia|]. destruct i; try lia.
  change (W wt2 (IWrite l :: r)) with (2 + W wt2 r). unfold wflag.
  destruct (writer (locks s l)) as [[u [|]]|]; try lia. destruct (Nat.eqb u t); lia.
Qed.

Lemma P_le_total s : P s <= total wt2 s.
Proof.
  unfold P, total.
  pose proof (tsum_le (ntasks s) (pend s) (fun t => W wt2 (prog (tasks s t))) ltac:(intros; apply pend_le_W)). lia.
Qed.

(* ---- how one step of task t changes [total] (any weight) ---- *)
Section Tot.
  Variable wt : instr -> nat.

  Lemma total_pop s t i r tk' lk lg : t < ntasks s -> prog (tasks s t) = i :: r -> prog tk' = r -> (forall c, i <> ISpawn c) ->
    total wt {| tasks := updt (tasks s) t tk'; ntasks := ntasks s; locks := lk; future := future s; inbox := inbox s; log := lg |}
    + wt i = total wt s.
  Proof.
    intros Hlt Hp Hk Hns. unfold total, pendW. cbn [tasks ntasks inbox future].
    pose proof (tsum_upd (ntasks s) (fun u => W wt (prog (tasks s u))) (fun u => W wt (prog (updt (tasks s) t tk' u))) t Hlt) as HU.
    cbn beta in HU. rewrite updt_same, Hk, Hp in HU.
    assert (Hw : W wt (i :: r) = wt i + W wt r) by (destruct i; try reflexivity; exfalso; eapply Hns; reflexivity).
    rewrite Hw in HU. specialize (HU ltac:(intros u Hu; now rewrite updt_other)). lia.
  Qed.

  Lemma total_keep s t lk lg :
    total wt {| tasks := updt (tasks s) t (tasks s t); ntasks := ntasks s; locks := lk; future := future s; inbox := inbox s; log := lg |}
    = total wt s.
  Proof.
    unfold total, pendW. cbn [tasks ntasks inbox future]. f_equal.
    apply tsum_ext. intros u _. unfold updt. destruct (Nat.eqb_spec u t); [now subst|reflexivity].
  Qed.

  Lemma total_spawn s t c r : t < ntasks s -> prog (tasks s t) = ISpawn c :: r ->
    total wt {| tasks := updt (updt (tasks s) t {| prog := r; held := held (tasks s t) |}) (ntasks s) {| prog := body c; held := [] |};
                ntasks := S (ntasks s); locks := locks s; future := future s; inbox := inbox s; log := log s |}
    + wt (ISpawn c) = total wt s.
  Proof.
    intros Hlt Hp. unfold total, pendW. cbn [tasks ntasks inbox future tsum].
    rewrite updt_same. cbn [prog]. rewrite (W_flat wt (body c) (flat_body c)).
    rewrite (tsum_ext (ntasks s) _ (fun u => W wt (prog (updt (tasks s) t {| prog := r; held := held (tasks s t) |} u))))
      by (intros u Hu; rewrite updt_other by lia; reflexivity).
    pose proof (tsum_upd (ntasks s) (fun u => W wt (prog (tasks s u)))
                  (fun u => W wt (prog (updt (tasks s) t {| prog := r; held := held (tasks s t) |} u))) t Hlt) as HU.
    cbn beta in HU. rewrite updt_same, Hp in HU. cbn [prog] in HU.
    assert (Hw : W wt (ISpawn c :: r) = wt (ISpawn c) + wsum wt (body c) + W wt r) by reflexivity.
    rewrite Hw in HU. specialize (HU ltac:(intros u Hu; now rewrite updt_other)). lia.
  Qed.

  Lemma total_recv s t c q r : t < ntasks s -> prog (tasks s t) = IRecv :: r -> inbox s = c :: q ->
    total wt {| tasks := updt (tasks s) t {| prog := dispatch c ++ IRecv :: r; held := held (tasks s t) |};
                ntasks := ntasks s; locks := locks s; future := future s; inbox := q; log := log s |}
    = total wt s.
  Proof.
    intros Hlt Hp Hib. unfold total, pendW. cbn [tasks ntasks inbox future]. rewrite Hib. cbn [app map].
    pose proof (tsum_upd (ntasks s) (fun u => W wt (prog (tasks s u)))
                  (fun u => W wt (prog (updt (tasks s) t {| prog := dispatch c ++ IRecv :: r; held := held (tasks s t) |} u))) t Hlt) as HU.
    cbn beta in HU. rewrite updt_same, Hp in HU. cbn [prog] in HU. rewrite W_app in HU.
    specialize (HU ltac:(intros u Hu; now rewrite updt_other)). rewrite list_sum_cons. lia.
  Qed.
End Tot.

(* ---- how it changes the number of pending writers ---- *)
Lemma tsum_pend_upd s s' t n : t < n ->
  (forall u, u <> t -> u < n -> pend s' u = pend s u) -> tsum (pend s') n + pend s t = tsum (pend s) n + pend s' t.
Proof.
  induction n as [|n IH]; intros Hlt Hoth; [lia|]. cbn.
  destruct (Nat.eq_dec t n) as [->|Hne].
  - rewrite (tsum_ext n (pend s') (pend s)) by (intros u Hu; apply Hoth; lia). lia.
  - rewrite (Hoth n) by lia. assert (Hl : t < n) by lia. specialize (IH Hl ltac:(intros; apply Hoth; lia)). lia.
Qed.

Lemma P_upd s s' t : t < ntasks s -> ntasks s' = ntasks s ->
  (forall u, u <> t -> u < ntasks s -> pend s' u = pend s u) -> P s' + pend s t = P s + pend s' t.
Proof. intros Hlt Hn Hoth. unfold P. rewrite Hn. now apply tsum_pend_upd. Qed.

(* the flag of another task u for lock l is not changed when t (the only one who may) rewrites l's writer field
   between None, Some (t, false), Some (t, true) *)
Lemma wflag_other w w' t u : u <> t ->
  (w = None \/ exists b, w = Some (t, b)) -> (w' = None \/ exists b, w' = Some (t, b)) -> wflag w' u = wflag w u.
Proof.
  intros Hne [->|[b ->]] [->|[b' ->]]; try reflexivity; unfold wflag; try destruct b; try destruct b'; try reflexivity;
    destruct (Nat.eqb_spec t u); congruence.
Qed.

(* pend of u <> t after a step in which only t's task slot and (possibly) lock l0's writer field changed *)
Lemma pend_other s s' t l0 u : u <> t -> tasks s' u = tasks s u ->
  (forall l, l <> l0 -> locks s' l = locks s l) ->
  (writer (locks s l0) = None \/ exists b, writer (locks s l0) = Some (t, b)) ->
  (writer (locks s' l0) = None \/ exists b, writer (locks s' l0) = Some (t, b)) ->
  pend s' u = pend s u.
Proof.
  intros Hne Ht Hl Hw Hw'. unfold pend. rewrite Ht.
  destruct (prog (tasks s u)) as [|i r]; [reflexivity|]. destruct i; try reflexivity.
  destruct (Nat.eq_dec l l0) as [->|Hn]; [now apply (wflag_other _ _ t)|now rewrite Hl].
Qed.

Lemma pend_other_samew s s' u : tasks s' u = tasks s u -> (forall l, writer (locks s' l) = writer (locks s l)) ->
  pend s' u = pend s u.
Proof.
  intros Ht Hl. unfold pend. rewrite Ht. destruct (prog (tasks s u)) as [|i r]; [reflexivity|]. destruct i; try reflexivity.
  now rewrite Hl.
Qed.

(* after t has consumed its head instruction it is not pending: a flag for t needs the OLD head to be that IWrite *)
Lemma pend_after_pop s s' t i r : pinv s -> prog (tasks s t) = i :: r -> prog (tasks s' t) = r ->
  (forall l, writer (locks s' l) = Some (t, false) -> writer (locks s l) = Some (t, false) /\ i <> IWrite l) ->
  pend s' t = 0.
Proof.
  intros K4 Hp Hk Hw. unfold pend. rewrite Hk.
  destruct r as [|j r1]; [reflexivity|]. destruct j; try reflexivity. unfold wflag.
  destruct (writer (locks s' l)) as [[u [|]]|] eqn:E; try reflexivity. destruct (Nat.eqb_spec u t); [subst u|reflexivity].
  exfalso. destruct (Hw l E) as [E0 Hd]. destruct (K4 t l E0) as [r' Hr']. rewrite Hp in Hr'. inversion Hr'; subst. now apply Hd.
Qed.

Lemma pend_head_not_write s t i r : prog (tasks s t) = i :: r -> (forall l, i <> IWrite l) -> pend s t = 0.
Proof. intros Hp Hi. unfold pend. rewrite Hp. destruct i; try reflexivity. exfalso. eapply Hi. reflexivity. Qed.

Ltac others_lock s1 t l :=
  let u := fresh "u" in let Hu := fresh "Hu" in
  intros u Hu _; apply (pend_other _ _ t l u Hu);
  [unfold s1; cbn [tasks set_task_lock]; now rewrite updt_other
  |let l' := fresh "l'" in let Hl := fresh "Hl" in intros l' Hl; unfold s1; cbn [locks set_task_lock]; now rewrite updl_other
  | | unfold s1; cbn [locks set_task_lock]; rewrite updl_same; cbn [writer] ].

(* exactly one unit per step *)
Lemma measure_step s lb s' : wf s -> pinv s -> step lb s = Some s' -> mu s' + P s + 1 = mu s + P s'.
Proof.
  intros Hwf K4 Hst. destruct lb as [t|].
  2:{ destruct (total_arrive wt2 s s' Hst) as [Ht _]. apply step_arrive in Hst. destruct Hst as [c [q [Hf ->]]].
      unfold mu, P. rewrite Ht. cbn [inbox future ntasks]. rewrite Hf, app_length. cbn [length].
      rewrite (tsum_ext (ntasks s) (pend {| tasks := tasks s; ntasks := ntasks s; locks := locks s; future := q;
                                            inbox := inbox s ++ [c]; log := log s |}) (pend s)) by (intros; reflexivity).
      lia. }
  assert (Hlt : t < ntasks s).
  { apply wf_live; [assumption|]. unfold step in Hst. destruct (prog (tasks s t)); [discriminate|congruence]. }
  pose proof Hwf as [Hn1 Hidle]. pose proof (Hidle (ntasks s) (le_n _)) as Hnew.
  pose proof (step_tstep _ _ _ Hst) as Hts.
  inversion Hts; subst; rename H into Hp.
  - (* read *)
    match goal with |- mu ?X + _ + _ = _ => set (s1 := X) in * end.
    assert (HT : total wt2 s1 + 1 = total wt2 s)
      by (unfold s1, set_task_lock, set_task; apply (total_pop wt2 s t _ r _ _ _ Hlt Hp); [reflexivity|discriminate]).
    assert (HP : P s1 + pend s t = P s + pend s1 t).
    { apply (P_upd s s1 t Hlt eq_refl). others_lock s1 t l; [left; assumption|left; reflexivity]. }
    assert (H1 : pend s t = 0) by (apply (pend_head_not_write s t _ _ Hp); discriminate).
    assert (H2 : pend s1 t = 0).
    { apply (pend_after_pop s s1 t _ _ K4 Hp); [cbn; now rewrite updt_same|]. intros l' E. split; [|discriminate].
      revert E. cbn. unfold updl. destruct (Nat.eqb_spec l' l); [cbn; discriminate|auto]. }
    unfold mu. change (inbox s1) with (inbox s). change (future s1) with (future s). lia.
  - (* read unlock *)
    match goal with |- mu ?X + _ + _ = _ => set (s1 := X) in * end.
    assert (HT : total wt2 s1 + 1 = total wt2 s)
      by (unfold s1, set_task_lock, set_task; apply (total_pop wt2 s t _ r _ _ _ Hlt Hp); [reflexivity|discriminate]).
    assert (HP : P s1 + pend s t = P s + pend s1 t).
    { apply (P_upd s s1 t Hlt eq_refl). intros u Hu _. apply pend_other_samew; [cbn; now rewrite updt_other|].
      intros l'. cbn. unfold updl. destruct (Nat.eqb_spec l' l); [subst; reflexivity|reflexivity]. }
    assert (H1 : pend s t = 0) by (apply (pend_head_not_write s t _ _ Hp); discriminate).
    assert (H2 : pend s1 t = 0).
    { apply (pend_after_pop s s1 t _ _ K4 Hp); [cbn; now rewrite updt_same|]. intros l' E. split; [|discriminate].
      revert E. cbn. unfold updl. destruct (Nat.eqb_spec l' l); [subst; cbn; auto|auto]. }
    unfold mu. change (inbox s1) with (inbox s). change (future s1) with (future s). lia.
  - (* write: mutex taken, WRITER_BIT set *)
    match goal with |- mu ?X + _ + _ = _ => set (s1 := X) in * end.
    assert (HT : total wt2 s1 = total wt2 s) by (unfold s1, set_task_lock; apply total_keep).
    assert (HP : P s1 + pend s t = P s + pend s1 t).
    { apply (P_upd s s1 t Hlt eq_refl). others_lock s1 t l; [left; assumption|right; eexists; reflexivity]. }
    assert (H1 : pend s t = 0) by (unfold pend; rewrite Hp, H0; reflexivity).
    assert (H2 : pend s1 t = 1).
    { unfold pend, s1. cbn [tasks locks set_task_lock]. rewrite updt_same, Hp, updl_same. cbn. now rewrite Nat.eqb_refl. }
    unfold mu. change (inbox s1) with (inbox s). change (future s1) with (future s). lia.
  - (* write: acquired *)
    match goal with |- mu ?X + _ + _ = _ => set (s1 := X) in * end.
    assert (HT : total wt2 s1 + 2 = total wt2 s)
      by (unfold s1, set_task_lock, set_task; apply (total_pop wt2 s t _ r _ _ _ Hlt Hp); [reflexivity|discriminate]).
    assert (HP : P s1 + pend s t = P s + pend s1 t).
    { apply (P_upd s s1 t Hlt eq_refl). others_lock s1 t l; [right; eexists; eassumption|right; eexists; reflexivity]. }
    assert (H1' : pend s t = 1) by (unfold pend; rewrite Hp, H0; cbn; now rewrite Nat.eqb_refl).
    assert (H2 : pend s1 t = 0).
    { apply (pend_after_pop s s1 t _ _ K4 Hp); [cbn; now rewrite updt_same|]. intros l' E.
      revert E. cbn. unfold updl. destruct (Nat.eqb_spec l' l); [cbn; discriminate|]. intros E. split; [assumption|congruence]. }
    unfold mu. change (inbox s1) with (inbox s). change (future s1) with (future s). lia.
  - (* write unlock *)
    match goal with |- mu ?X + _ + _ = _ => set (s1 := X) in * end.
    assert (HT : total wt2 s1 + 1 = total wt2 s)
      by (unfold s1, set_task_lock, set_task; apply (total_pop wt2 s t _ r _ _ _ Hlt Hp); [reflexivity|discriminate]).
    assert (HP : P s1 + pend s t = P s + pend s1 t).
    { apply (P_upd s s1 t Hlt eq_refl). others_lock s1 t l; [right; eexists; eassumption|left; reflexivity]. }
    assert (H1 : pend s t = 0) by (apply (pend_head_not_write s t _ _ Hp); discriminate).
    assert (H2 : pend s1 t = 0).
    { apply (pend_after_pop s s1 t _ _ K4 Hp); [cbn; now rewrite updt_same|]. intros l' E. split; [|discriminate].
      revert E. cbn. unfold updl. destruct (Nat.eqb_spec l' l); [cbn; discriminate|auto]. }
    unfold mu. change (inbox s1) with (inbox s). change (future s1) with (future s). lia.
  - (* tau *)
    match goal with |- mu ?X + _ + _ = _ => set (s1 := X) in * end.
    assert (HT : total wt2 s1 + 1 = total wt2 s)
      by (unfold s1, set_task_lock, set_task; apply (total_pop wt2 s t _ r _ _ _ Hlt Hp); [reflexivity|discriminate]).
    assert (HP : P s1 + pend s t = P s + pend s1 t).
    { apply (P_upd s s1 t Hlt eq_refl). intros u Hu _. apply pend_other_samew; [cbn; now rewrite updt_other|reflexivity]. }
    assert (H1 : pend s t = 0) by (apply (pend_head_not_write s t _ _ Hp); discriminate).
    assert (H2 : pend s1 t = 0)
      by (apply (pend_after_pop s s1 t _ _ K4 Hp); [cbn; now rewrite updt_same|intros l' E; split; [exact E|discriminate]]).
    unfold mu. change (inbox s1) with (inbox s). change (future s1) with (future s). lia.
  - (* event *)
    match goal with |- mu ?X + _ + _ = _ => set (s1 := X) in * end.
    assert (HT : total wt2 s1 + 1 = total wt2 s)
      by (unfold s1, set_task_lock, set_task; apply (total_pop wt2 s t _ r _ _ _ Hlt Hp); [reflexivity|discriminate]).
    assert (HP : P s1 + pend s t = P s + pend s1 t).
    { apply (P_upd s s1 t Hlt eq_refl). intros u Hu _. apply pend_other_samew; [cbn; now rewrite updt_other|reflexivity]. }
    assert (H1 : pend s t = 0) by (apply (pend_head_not_write s t _ _ Hp); discriminate).
    assert (H2 : pend s1 t = 0)
      by (apply (pend_after_pop s s1 t _ _ K4 Hp); [cbn; now rewrite updt_same|intros l' E; split; [exact E|discriminate]]).
    unfold mu. change (inbox s1) with (inbox s). change (future s1) with (future s). lia.
  - (* spawn: one more task *)
    match goal with |- mu ?X + _ + _ = _ => set (s1 := X) in * end.
    assert (HT : total wt2 s1 + 1 = total wt2 s) by (unfold s1; apply (total_spawn wt2 s t c r Hlt Hp)).
    assert (HP : P s1 = P s).
    { unfold P, s1. cbn [ntasks tsum].
      assert (Hn : pend s1 (ntasks s) = 0).
      { apply (pend_head_not_write s1 (ntasks s) (hd ITau (body c)) (tl (body c))).
        - unfold s1. cbn [tasks]. rewrite updt_same. cbn [prog]. unfold body. destruct (c_kind c); reflexivity.
        - intros l. unfold body. destruct (c_kind c); cbn; discriminate. }
      fold s1. rewrite Hn, Nat.add_0_r.
      assert (HU : tsum (pend s1) (ntasks s) + pend s t = tsum (pend s) (ntasks s) + pend s1 t).
      { apply tsum_pend_upd; [assumption|]. intros u Hu Hul.
        apply pend_other_samew; [unfold s1; cbn [tasks]; rewrite updt_other by lia; now rewrite updt_other|reflexivity]. }
      assert (H1 : pend s t = 0) by (apply (pend_head_not_write s t _ _ Hp); discriminate).
      assert (H2 : pend s1 t = 0).
      { apply (pend_after_pop s s1 t _ _ K4 Hp); [unfold s1; cbn [tasks]; rewrite updt_other by lia; now rewrite updt_same|].
        intros l' E; split; [exact E|discriminate]. }
      lia. }
    unfold mu. change (inbox s1) with (inbox s). change (future s1) with (future s). lia.
  - (* receive *)
    match goal with |- mu ?X + _ + _ = _ => set (s1 := X) in * end. rename H0 into Hib.
    assert (HT' : total wt2 s1 = total wt2 s) by (unfold s1; apply (total_recv wt2 s t c q r Hlt Hp Hib)).
    assert (HP : P s1 + pend s t = P s + pend s1 t).
    { apply (P_upd s s1 t Hlt eq_refl). intros u Hu _. apply pend_other_samew; [cbn; now rewrite updt_other|reflexivity]. }
    assert (H1 : pend s t = 0) by (apply (pend_head_not_write s t _ _ Hp); discriminate).
    assert (H2 : pend s1 t = 0).
    { apply (pend_head_not_write s1 t (IRead L_root) (IRUnlock L_root :: match c_kind c with KUnknown => body c | _ => if c_spawn c then [ISpawn c] else body c end ++ IRecv :: r)).
      - unfold s1. cbn [tasks]. rewrite updt_same. reflexivity.
      - discriminate. }
    unfold mu. change (inbox s1) with q. change (future s1) with (future s). rewrite Hib. cbn [length]. lia.
  - (* end of stream *)
    match goal with |- mu ?X + _ + _ = _ => set (s1 := X) in * end.
    assert (HT : total wt2 s1 + 1 = total wt2 s)
      by (unfold s1, set_task_lock, set_task; apply (total_pop wt2 s t _ r _ _ _ Hlt Hp); [reflexivity|discriminate]).
    assert (HP : P s1 + pend s t = P s + pend s1 t).
    { apply (P_upd s s1 t Hlt eq_refl). intros u Hu _. apply pend_other_samew; [cbn; now rewrite updt_other|reflexivity]. }
    assert (Hz1 : pend s t = 0) by (apply (pend_head_not_write s t _ _ Hp); discriminate).
    assert (Hz2 : pend s1 t = 0)
      by (apply (pend_after_pop s s1 t _ _ K4 Hp); [cbn; now rewrite updt_same|intros l' E; split; [exact E|discriminate]]).
    unfold mu. change (inbox s1) with (inbox s). change (future s1) with (future s). lia.
Qed.

(* every run is at most [run_bound calls] steps long *)
Theorem run_length_bound calls tr s : reach calls tr s -> length tr <= run_bound calls.
Proof.
  intros Hr.
  assert (H : wf s /\ pinv s /\ length tr + mu s = run_bound calls + P s).
  { revert s Hr. unfold reach. induction tr as [|lb tr IH] using rev_ind; intros s Hr.
    - cbn in Hr. inversion Hr; subst. split; [apply wf_init|]. split; [apply pinv_init|].
      unfold mu, run_bound, P. cbn [init inbox future ntasks length tsum]. cbn. lia.
    - apply run_snoc in Hr. destruct Hr as [s1 [Hr1 Hst]]. destruct (IH s1 Hr1) as [Hw [Hk He]].
      split; [eapply wf_step; eauto|]. split; [eapply pinv_step; eauto|].
      pose proof (measure_step s1 lb s Hw Hk Hst). rewrite app_length. cbn [length]. lia. }
  destruct H as [_ [_ H]]. pose proof (P_le_total s). unfold mu in H. lia.
Qed.
