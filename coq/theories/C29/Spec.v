(* C29/Spec.v — what the property says, written without reference to the instruction sequences of the model.

   "For an interface registered with task spawning disabled, method calls are executed one after another in the
    order they were received, whatever their handlers await; with spawning enabled, every call still gets its reply."

   A burst is a list of calls in arrival order.  A call is INLINE when it is a method call (&self or &mut self) to an
   interface whose spawn flag is off.  The events of one handler execution are  S c, O c 0 .. O c (n-1), E c, R c (R c only if the call wants a reply)
   (start, completion of each of its n operations, end, reply).  The property: at every moment, under every schedule,
   the sub-log of the events of inline calls is a prefix of the concatenation, in arrival order, of their complete
   executions — i.e. executions are sequential (nothing of another inline call between S c and R c) and in arrival order. *)
From ZV Require Import Base.Bytes C29.Model.

Definition is_method (k : ckind) : bool := match k with KMut | KRef => true | _ => false end.
Definition inline (c : call) : bool := negb (c_spawn c) && is_method (c_kind c).

Definition ev_call (e : ev) : nat := match e with EvS c | EvO c _ | EvE c | EvR c => c end.

Definition op_events (c n : nat) : list ev := map (EvO c) (seq 0 n).
Definition wants_reply (c : call) : bool := match c_kind c with KUnknown => true | _ => negb (c_noreply c) end.
Definition handler_events (c : call) : list ev :=
  [EvS (c_id c)] ++ op_events (c_id c) (length (c_script c)) ++ [EvE (c_id c)] ++ (if wants_reply c then [EvR (c_id c)] else []).

Definition sequential_order (calls : list call) : list ev := flat_map handler_events (filter inline calls).

Definition inline_ids (calls : list call) : list nat := map c_id (filter inline calls).
Definition inline_log (calls : list call) (l : list ev) : list ev :=
  filter (fun e => memn (ev_call e) (inline_ids calls)) l.

Definition ev_eqb (a b : ev) : bool :=
  match a, b with
  | EvS x, EvS y | EvE x, EvE y | EvR x, EvR y => Nat.eqb x y
  | EvO x i, EvO y j => Nat.eqb x y && Nat.eqb i j
  | _, _ => false
  end.

Fixpoint is_prefix (a b : list ev) : bool :=
  match a, b with
  | [], _ => true
  | x :: a', y :: b' => ev_eqb x y && is_prefix a' b'
  | _ :: _, [] => false
  end.

Definition prefix_of (a b : list ev) : Prop := exists rest, a ++ rest = b.

(* ---- the oracle evaluated on the IMPLEMENTATION's log.  The harness records R c when the peer has received the reply,
   i.e. possibly later than it was sent, so the order clause is checked on the S/O/E events only. ---- *)
Definition not_reply (e : ev) : bool := match e with EvR _ => false | _ => true end.

Definition order_ok (calls : list call) (l : list ev) : bool :=
  is_prefix (filter not_reply (inline_log calls l)) (filter not_reply (sequential_order calls)).

Fixpoint count_ev (e : ev) (l : list ev) : nat :=
  match l with
  | [] => 0
  | x :: r => (if ev_eqb x e then 1 else 0) + count_ev e r
  end.

(* every call got exactly one reply — none if it carries NO_REPLY_EXPECTED *)
Definition replies_ok (calls : list call) (l : list ev) : bool :=
  forallb (fun c => Nat.eqb (count_ev (EvR (c_id c)) l) (if wants_reply c then 1 else 0)) calls.

(* a finished run: everything of the inline calls happened *)
Definition order_complete (calls : list call) (l : list ev) : bool :=
  Nat.eqb (length (filter not_reply (inline_log calls l))) (length (filter not_reply (sequential_order calls))).
