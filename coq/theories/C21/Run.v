(* C21/Run.v — line driver for `m <rule ops> / <message fields>` (format: harness/hmatch/src/main.rs).
   model = T/F of the model of MatchRule::matches (BERR when the builder refuses an operation);
   spec  = T/F by C21/Spec.v when the pair is [local], else "-";  class = first known class. *)
From ZV Require Import Base.Bytes Base.Res C21.Model C21.Spec.

Definition mtype_of (w : bytes) : option mtype :=
  if lbeq w (B "1") then Some MethodCall else if lbeq w (B "2") then Some MethodReturn
  else if lbeq w (B "3") then Some MError else if lbeq w (B "4") then Some Signal else None.

Definition idx_hex (v : bytes) : option (N * bytes) :=
  match split_once ":" v with
  | Some (i, h) => match N_of_dec i, bytes_of_hex h with
                   | Some n, Some s => if (n <? 256)%N then Some (n, s) else None
                   | _, _ => None
                   end
  | None => None
  end.

Definition op_of (tok : bytes) : option bop :=
  match split_once "=" tok with
  | None => None
  | Some (k, v) =>
      let hx := bytes_of_hex v in
      if lbeq k (B "ty") then option_map OType (mtype_of v)
      else if lbeq k (B "sn") then option_map OSender hx
      else if lbeq k (B "if") then option_map OInterface hx
      else if lbeq k (B "mb") then option_map OMember hx
      else if lbeq k (B "pa") then option_map OPath hx
      else if lbeq k (B "pn") then option_map OPathNs hx
      else if lbeq k (B "de") then option_map ODest hx
      else if lbeq k (B "ns") then option_map OArg0ns hx
      else if lbeq k (B "aa") then option_map OAddArg hx
      else if lbeq k (B "aq") then option_map OAddArgPath hx
      else if lbeq k (B "ar") then option_map (fun p => OArg (fst p) (snd p)) (idx_hex v)
      else if lbeq k (B "ap") then option_map (fun p => OArgPath (fst p) (snd p)) (idx_hex v)
      else None
  end.

Fixpoint ops_of (toks : list bytes) : option (list bop) :=
  match toks with
  | [] => Some []
  | t :: r => match op_of t, ops_of r with Some o, Some l => Some (o :: l) | _, _ => None end
  end.

(* message fields, folded left to right; None = malformed case line *)
Record macc := { a_type : option mtype; a_msg : msg }.
Definition msg0 : msg := {| m_type := Signal; m_sender := None; m_interface := None; m_member := None; m_path := None;
                            m_destination := None; m_body := [] |}.
Definition bus_of (s : bytes) : busname := if C10.Model.validate_unique s then BUnique s else BWellKnown s.
Definition add_body (m : msg) (a : arg) : msg :=
  {| m_type := m_type m; m_sender := m_sender m; m_interface := m_interface m; m_member := m_member m; m_path := m_path m;
     m_destination := m_destination m; m_body := m_body m ++ [a] |}.
Definition first_byte (n : N) : byte := nb n.
Definition field_of (m : msg) (tok : bytes) : option msg :=
  match split_once "=" tok with
  | None => None
  | Some (k, v) =>
      let hx := bytes_of_hex v in
      if lbeq k (B "ty") then
        option_map (fun t => {| m_type := t; m_sender := m_sender m; m_interface := m_interface m; m_member := m_member m;
                                m_path := m_path m; m_destination := m_destination m; m_body := m_body m |}) (mtype_of v)
      else if lbeq k (B "sn") then
        option_map (fun s => {| m_type := m_type m; m_sender := Some s; m_interface := m_interface m; m_member := m_member m;
                                m_path := m_path m; m_destination := m_destination m; m_body := m_body m |}) hx
      else if lbeq k (B "if") then
        option_map (fun s => {| m_type := m_type m; m_sender := m_sender m; m_interface := Some s; m_member := m_member m;
                                m_path := m_path m; m_destination := m_destination m; m_body := m_body m |}) hx
      else if lbeq k (B "mb") then
        option_map (fun s => {| m_type := m_type m; m_sender := m_sender m; m_interface := m_interface m; m_member := Some s;
                                m_path := m_path m; m_destination := m_destination m; m_body := m_body m |}) hx
      else if lbeq k (B "pa") then
        option_map (fun s => {| m_type := m_type m; m_sender := m_sender m; m_interface := m_interface m; m_member := m_member m;
                                m_path := Some s; m_destination := m_destination m; m_body := m_body m |}) hx
      else if lbeq k (B "de") then
        option_map (fun s => {| m_type := m_type m; m_sender := m_sender m; m_interface := m_interface m; m_member := m_member m;
                                m_path := m_path m; m_destination := Some (bus_of s); m_body := m_body m |}) hx
      else if lbeq k (B "bs") then option_map (fun s => add_body m (AStr s)) hx
      else if lbeq k (B "bo") then option_map (fun s => add_body m (APath s)) hx
      else if lbeq k (B "bu") then option_map (fun n => add_body m (AU32 n)) (N_of_dec v)
      else if lbeq k (B "by") then option_map (fun n => add_body m (AByte (nb n))) (N_of_dec v)
      else if lbeq k (B "bg") then option_map (fun s => add_body m (ASig s)) hx
      else if lbeq k (B "bv") then option_map (fun s => add_body m (AVarStr s)) hx
      else if lbeq k (B "bp") then option_map (fun s => add_body m (AVarPath s)) hx
      else if lbeq k (B "bl") then option_map (fun s => add_body m (AArrStr s)) hx
      else if lbeq k (B "bt") then option_map (fun s => add_body m (AStructSU s 7)) hx
      else None
  end.
Fixpoint msg_of (m : msg) (toks : list bytes) : option msg :=
  match toks with
  | [] => Some m
  | t :: r => match field_of m t with Some m' => msg_of m' r | None => None end
  end.

Fixpoint cut_at_slash (toks acc : list bytes) : option (list bytes * list bytes) :=
  match toks with
  | [] => None
  | t :: r => if lbeq t (B "/") then Some (rev acc, r) else cut_at_slash r (t :: acc)
  end.

Definition always_false (_ _ : bytes) : bool := false.

Definition run_case (line : bytes) : outp :=
  match words line with
  | cmd :: rest =>
      if lbeq cmd (B "m") then
        match cut_at_slash rest [] with
        | Some (rt, mt) =>
            match ops_of rt, msg_of msg0 mt with
            | Some ops, Some m =>
                match build ops with
                | Ok r =>
                    {| o_model := bool_tok (matches_b r m);
                       o_spec := if local r m then bool_tok (matches_spec always_false r m) else dash;
                       o_class := class_of r m |}
                | _ => {| o_model := B "BERR"; o_spec := dash; o_class := dash |}
                end
            | _, _ => bad_case
            end
        | None => bad_case
        end
      else bad_case
  | _ => bad_case
  end.

Definition run (line : bytes) : bytes := render (run_case line).
