(* C21/Model.v — executable mirror of zbus/src/match_rule/{mod.rs,builder.rs} as they are:
   the rule record, the builder operations (validation, index limit, sorted insertion) and
   MatchRule::matches in code order.  Display / TryFrom<&str> are in C22/Model.v.  No proofs here.

   Strings are byte lists (valid UTF-8 is assumed of every input: the API takes &str).
   Name and object-path validation is the model of C10 (C10/Model.v, tied to the code there).

   Messages are abstracted to what `matches` looks at: the message type, five header fields and the
   body arguments.  Body arguments are drawn from the nine shapes the harness can build. *)
From ZV Require Import Base.Bytes Base.Res C10.Model.

(* str::split_once(c): split at the first occurrence of c *)
Fixpoint split_once (c : byte) (l : bytes) : option (bytes * bytes) :=
  match l with
  | [] => None
  | x :: r => if beq x c then Some ([], r)
              else match split_once c r with Some (a, b) => Some (x :: a, b) | None => None end
  end.

Inductive merr := EInvalidMatchRule | ENames | EVariant.

Inductive mtype := MethodCall | MethodReturn | MError | Signal.
Definition mtype_eqb (a b : mtype) : bool :=
  match a, b with
  | MethodCall, MethodCall | MethodReturn, MethodReturn | MError, MError | Signal, Signal => true
  | _, _ => false
  end.

(* zbus_names::BusName: the variant is chosen by TryFrom<Str> (bus_name.rs:213): unique first *)
Inductive busname := BUnique (s : bytes) | BWellKnown (s : bytes).
Definition bus_str (b : busname) : bytes := match b with BUnique s | BWellKnown s => s end.
Definition mk_bus (s : bytes) : res merr busname :=
  if validate_unique s then Ok (BUnique s)
  else if validate_well_known s then Ok (BWellKnown s)
  else Err ENames.

Inductive pathspec := PPath (p : bytes) | PNamespace (p : bytes).

Record rule := {
  r_type : option mtype;
  r_sender : option busname;
  r_interface : option bytes;
  r_member : option bytes;
  r_path : option pathspec;
  r_destination : option bytes;          (* UniqueName *)
  r_args : list (N * bytes);             (* Vec<(u8, Str)>, kept sorted by the builder *)
  r_arg_paths : list (N * bytes);        (* Vec<(u8, ObjectPath)> *)
  r_arg0ns : option bytes }.

Definition empty_rule : rule :=
  {| r_type := None; r_sender := None; r_interface := None; r_member := None; r_path := None;
     r_destination := None; r_args := []; r_arg_paths := []; r_arg0ns := None |}.

(* ------------------------------------------------------------------ builder.rs *)
Definition MAX_ARGS : N := 64.

(* builder.rs:139-148 / 185-194: binary_search_by on the vector (sorted, no duplicate index: an invariant
   proved in C22/Proofs.v), replace if present, else insert at the insertion point. *)
Fixpoint ins (i : N) (v : bytes) (l : list (N * bytes)) : list (N * bytes) :=
  match l with
  | [] => [(i, v)]
  | (j, w) :: t => if (i <? j)%N then (i, v) :: l
                   else if (i =? j)%N then (i, v) :: t
                   else (j, w) :: ins i v t
  end.

(* builder.rs:221-257 arg0ns *)
Definition ns_char (c : byte) : bool := is_alphanum c || beq c "-" || beq c "_" || beq c ".".
Definition valid_first_char (is_unique : bool) (s : bytes) : bool :=
  match s with
  | [] => false
  | c :: _ => if beq c "." then false else if is_digit c && negb is_unique then false else true
  end.
Definition validate_arg0ns (ns : bytes) : bool :=
  if lbeq ns [] || (255 <? len ns)%N then false
  else
    let '(is_unique, s) := match ns with
                           | c :: r => if beq c ":" then (true, r) else (false, ns)
                           | [] => (false, ns)
                           end in
    valid_first_char is_unique s
    && forallb (valid_first_char is_unique) (split_on "." s)
    && forallb ns_char s.

Inductive bop :=
| OType (t : mtype) | OSender (s : bytes) | OInterface (s : bytes) | OMember (s : bytes)
| OPath (s : bytes) | OPathNs (s : bytes) | ODest (s : bytes)
| OArg (i : N) (s : bytes) | OArgPath (i : N) (s : bytes) | OArg0ns (s : bytes)
| OAddArg (s : bytes) | OAddArgPath (s : bytes).

Definition set_type r t := {| r_type := Some t; r_sender := r_sender r; r_interface := r_interface r; r_member := r_member r;
  r_path := r_path r; r_destination := r_destination r; r_args := r_args r; r_arg_paths := r_arg_paths r; r_arg0ns := r_arg0ns r |}.
Definition set_sender r b := {| r_type := r_type r; r_sender := Some b; r_interface := r_interface r; r_member := r_member r;
  r_path := r_path r; r_destination := r_destination r; r_args := r_args r; r_arg_paths := r_arg_paths r; r_arg0ns := r_arg0ns r |}.
Definition set_interface r s := {| r_type := r_type r; r_sender := r_sender r; r_interface := Some s; r_member := r_member r;
  r_path := r_path r; r_destination := r_destination r; r_args := r_args r; r_arg_paths := r_arg_paths r; r_arg0ns := r_arg0ns r |}.
Definition set_member r s := {| r_type := r_type r; r_sender := r_sender r; r_interface := r_interface r; r_member := Some s;
  r_path := r_path r; r_destination := r_destination r; r_args := r_args r; r_arg_paths := r_arg_paths r; r_arg0ns := r_arg0ns r |}.
Definition set_path r p := {| r_type := r_type r; r_sender := r_sender r; r_interface := r_interface r; r_member := r_member r;
  r_path := Some p; r_destination := r_destination r; r_args := r_args r; r_arg_paths := r_arg_paths r; r_arg0ns := r_arg0ns r |}.
Definition set_destination r s := {| r_type := r_type r; r_sender := r_sender r; r_interface := r_interface r; r_member := r_member r;
  r_path := r_path r; r_destination := Some s; r_args := r_args r; r_arg_paths := r_arg_paths r; r_arg0ns := r_arg0ns r |}.
Definition set_args r a := {| r_type := r_type r; r_sender := r_sender r; r_interface := r_interface r; r_member := r_member r;
  r_path := r_path r; r_destination := r_destination r; r_args := a; r_arg_paths := r_arg_paths r; r_arg0ns := r_arg0ns r |}.
Definition set_arg_paths r a := {| r_type := r_type r; r_sender := r_sender r; r_interface := r_interface r; r_member := r_member r;
  r_path := r_path r; r_destination := r_destination r; r_args := r_args r; r_arg_paths := a; r_arg0ns := r_arg0ns r |}.
Definition set_arg0ns r s := {| r_type := r_type r; r_sender := r_sender r; r_interface := r_interface r; r_member := r_member r;
  r_path := r_path r; r_destination := r_destination r; r_args := r_args r; r_arg_paths := r_arg_paths r; r_arg0ns := Some s |}.

Definition b_arg (r : rule) (i : N) (s : bytes) : res merr rule :=
  if (MAX_ARGS <=? i)%N then Err EInvalidMatchRule else Ok (set_args r (ins i s (r_args r))).
Definition b_arg_path (r : rule) (i : N) (s : bytes) : res merr rule :=
  if (MAX_ARGS <=? i)%N then Err EInvalidMatchRule
  else if validate_object_path s then Ok (set_arg_paths r (ins i s (r_arg_paths r)))
  else Err EVariant.

Definition len_list {A} (l : list A) : N := N.of_nat (List.length l).
Definition apply_op (r : rule) (o : bop) : res merr rule :=
  match o with
  | OType t => Ok (set_type r t)
  | OSender s => let* b := mk_bus s in Ok (set_sender r b)
  | OInterface s => if validate_interface s then Ok (set_interface r s) else Err ENames
  | OMember s => if validate_member s then Ok (set_member r s) else Err ENames
  | OPath s => if validate_object_path s then Ok (set_path r (PPath s)) else Err EVariant
  | OPathNs s => if validate_object_path s then Ok (set_path r (PNamespace s)) else Err EVariant
  | ODest s => if validate_unique s then Ok (set_destination r s) else Err ENames
  | OArg i s => b_arg r i s
  | OArgPath i s => b_arg_path r i s
  | OArg0ns s => if validate_arg0ns s then Ok (set_arg0ns r s) else Err EInvalidMatchRule
  | OAddArg s => b_arg r (len_list (r_args r)) s
  | OAddArgPath s => b_arg_path r (len_list (r_arg_paths r)) s
  end.

Definition build_from (r : rule) (ops : list bop) : res merr rule :=
  fold_left (fun acc o => let* r := acc in apply_op r o) ops (Ok r).
Definition build (ops : list bop) : res merr rule := build_from empty_rule ops.

(* ------------------------------------------------------------------ messages *)
Inductive arg :=
| AStr (s : bytes)                 (* s *)
| APath (p : bytes)                (* o *)
| AU32 (n : N)                     (* u *)
| AByte (b : byte)                 (* y *)
| ASig (g : bytes)                 (* g *)
| AVarStr (s : bytes)              (* v holding a string *)
| AVarPath (p : bytes)             (* v holding an object path *)
| AArrStr (s : bytes)              (* as with one element *)
| AStructSU (s : bytes) (n : N).   (* (su) *)

Record msg := {
  m_type : mtype;
  m_sender : option bytes;            (* UniqueName *)
  m_interface : option bytes;
  m_member : option bytes;
  m_path : option bytes;
  m_destination : option busname;
  m_body : list arg }.

(* `msg.body().signature().to_string_no_parens().starts_with('s')` (mod.rs:289-296, fix 3ae57b16).  The body
   signature is the concatenation of the arguments' signatures; it is stored without outer parentheses
   (fields.rs: to_string_no_parens) and parsed back, so a body whose only argument is the struct (su) has the
   signature "su", like a body made of a string and a u32.  An empty body has the empty signature. *)
Definition body_sig_starts_with_s (body : list arg) : bool :=
  match body with
  | AStr _ :: _ => true
  | [AStructSU _ _] => true
  | _ => false
  end.

(* what `msg.body().deserialize_unchecked::<BusName>()` sees before validation, on the bodies that pass the
   test above: the string at offset 0 (a struct is 8-aligned, the body starts 8-aligned, so the first field of
   a leading struct is at offset 0 too).  The decoder does not look at the signature; on any other body this
   read is not reached any more. *)
Definition arg0_raw (body : list arg) : option bytes :=
  match body with
  | AStr s :: _ | AStructSU s _ :: _ => Some s
  | _ => None
  end.

(* `msg.body().deserialize::<Structure>()` then `.fields()` (mod.rs:293-298).  The body signature is
   stored without the outer parentheses (fields.rs: to_string_no_parens) and parsed back; a body
   whose only argument is a struct therefore comes back as the struct's own fields.  An empty body
   (Signature::Unit) fails to deserialize as a Structure. *)
Definition body_fields (body : list arg) : option (list arg) :=
  match body with
  | [] => None
  | [AStructSU s n] => Some [AStr s; AU32 n]
  | _ => Some body
  end.

(* ------------------------------------------------------------------ MatchRule::matches (mod.rs:209-324) *)
Fixpoint strip_prefix (p l : bytes) : option bytes :=
  match p, l with
  | [], _ => Some l
  | a :: p', b :: l' => if beq a b then strip_prefix p' l' else None
  | _ :: _, [] => None
  end.

Definition opt_beq (a b : option bytes) : bool :=
  match a, b with Some x, Some y => lbeq x y | None, None => true | _, _ => false end.

Definition chk_type (r : rule) (m : msg) : bool :=                       (* 213-217 *)
  match r_type r with Some t => mtype_eqb t (m_type m) | None => true end.
Definition chk_sender (r : rule) (m : msg) : bool :=                     (* 220-229 *)
  match r_sender r with
  | Some (BUnique name) => opt_beq (Some name) (m_sender m)
  | Some (BWellKnown _) => true
  | None => true
  end.
Definition chk_interface (r : rule) (m : msg) : bool :=                  (* 232-238 *)
  match r_interface r with
  | Some i => match m_interface m with Some mi => lbeq i mi | None => false end
  | None => true
  end.
Definition chk_member (r : rule) (m : msg) : bool :=                     (* 241-247 *)
  match r_member r with
  | Some i => match m_member m with Some mi => lbeq i mi | None => false end
  | None => true
  end.
Definition chk_destination (r : rule) (m : msg) : bool :=                (* 250-261, after fix 8cf9b673 *)
  match r_destination r with
  | Some d => match m_destination m with
              | Some (BUnique name) => lbeq d name
              | Some (BWellKnown _) => true
              | None => false
              end
  | None => true
  end.
(* 271-279 after fix 8cf9b673: msg_path == path_ns || path_ns == "/" ||
   msg_path.strip_prefix(path_ns).is_some_and(|rest| rest.starts_with('/')) *)
Definition ns_covers (ns mp : bytes) : bool :=
  lbeq mp ns || lbeq ns (B "/")
  || match strip_prefix ns mp with Some (c :: _) => beq c "/" | _ => false end.
Definition chk_path (r : rule) (m : msg) : bool :=                       (* 264-283 *)
  match r_path r with
  | Some ps => match m_path m with
               | None => false
               | Some mp => match ps with
                            | PPath p => lbeq p mp
                            | PNamespace ns => ns_covers ns mp
                            end
               end
  | None => true
  end.
Definition chk_arg0ns (r : rule) (m : msg) : bool :=                     (* 286-306 *)
  match r_arg0ns r with
  | Some ns =>
      if negb (body_sig_starts_with_s (m_body m)) then false else
      match arg0_raw (m_body m) with
      | Some a0 =>
          if validate_bus a0 then
            match strip_prefix ns a0 with
            | None => false
            | Some [] => true
            | Some (c :: _) => beq c "."
            end
          else false
      | None => false
      end
  | None => true
  end.
Definition chk_arg (fields : list arg) (ia : N * bytes) : bool :=        (* 300-309 *)
  match nth_error fields (N.to_nat (fst ia)) with
  | Some (AStr a) => lbeq (snd ia) a
  | Some _ => false
  | None => false
  end.
Definition chk_arg_path (fields : list arg) (ia : N * bytes) : bool :=   (* 312-321 *)
  match nth_error fields (N.to_nat (fst ia)) with
  | Some (APath a) => lbeq (snd ia) a
  | Some _ => false
  | None => false
  end.
Definition is_nil {A} (l : list A) : bool := match l with [] => true | _ => false end.
Definition chk_args (r : rule) (m : msg) : bool :=                       (* 290-323 *)
  if is_nil (r_args r) && is_nil (r_arg_paths r) then true
  else match body_fields (m_body m) with
       | None => false
       | Some fields => forallb (chk_arg fields) (r_args r) && forallb (chk_arg_path fields) (r_arg_paths r)
       end.

(* every `return Ok(false)` is a false conjunct; the order is the order of the code *)
Definition matches_b (r : rule) (m : msg) : bool :=
  chk_type r m && chk_sender r m && chk_interface r m && chk_member r m && chk_destination r m
  && chk_path r m && chk_arg0ns r m && chk_args r m.
Definition matches (r : rule) (m : msg) : res merr bool := Ok (matches_b r m).
