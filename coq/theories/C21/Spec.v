(* C21/Spec.v — the match-rule semantics of the D-Bus specification ("Message Bus Message Routing /
   Match Rules"), written from the table of keys there, independently of the code's case splits.

   A rule is a set of optional conditions; a message matches when every condition present holds:
     type            the message type is the given one
     sender          the message was sent by the given connection: its SENDER field is the given
                     unique name, or the unique name that currently owns the given well-known name
     interface       the INTERFACE field is present and equal
     member          the MEMBER field is present and equal
     path            the PATH field is present and equal
     path_namespace  the PATH field is the given path or that path followed by one or more components
     destination     the message is being sent to the given unique name
     argN            the N-th body argument is a STRING and equal ("only arguments of type STRING")
     argNpath        the N-th body argument is a STRING or OBJECT_PATH and is equal, or either one
                     ends with '/' and is a prefix of the other
     arg0namespace   the first argument is a STRING that is a bus name (or interface name) equal to
                     the given value or starting with the value followed by '.'
   Name ownership lives on the bus; it is the parameter [owns w u] ("unique name u owns well-known
   name w").  zbus documents that it cannot resolve it: the theorem is about rule/message pairs that
   do not need it ([local]). *)
From ZV Require Import Base.Bytes C10.Spec C21.Model.

Section WithBus.
Variable owns : bytes -> bytes -> bool.

Definition s_type (r : rule) (m : msg) : bool :=
  match r_type r with None => true | Some t => mtype_eqb t (m_type m) end.

Definition s_sender (r : rule) (m : msg) : bool :=
  match r_sender r, m_sender m with
  | None, _ => true
  | Some _, None => false
  | Some (BUnique u), Some s => lbeq u s
  | Some (BWellKnown w), Some s => owns w s
  end.

Definition s_field (want have : option bytes) : bool :=
  match want, have with
  | None, _ => true
  | Some w, Some h => lbeq w h
  | Some _, None => false
  end.

(* "the given value, or that object path followed by one or more path components": below "/a" are
   exactly the paths starting with "/a/"; below the root "/" is every path.  [in_namespace_c] says the
   same with component lists ("/a/b" -> [a; b], "/" -> []); the two agree on valid object paths
   (Proofs.v, in_namespace_components). *)
Definition in_namespace (ns p : bytes) : bool :=
  lbeq p ns || (if lbeq ns [slash] then true else starts_with (ns ++ [slash]) p).

Definition components (p : bytes) : list bytes :=
  filter (fun e => negb (lbeq e [])) (split_on slash p).
Fixpoint list_prefix (a b : list bytes) : bool :=
  match a, b with
  | [], _ => true
  | x :: a', y :: b' => lbeq x y && list_prefix a' b'
  | _ :: _, [] => false
  end.
Definition in_namespace_c (ns p : bytes) : bool := list_prefix (components ns) (components p).

Definition s_path (r : rule) (m : msg) : bool :=
  match r_path r, m_path m with
  | None, _ => true
  | Some _, None => false
  | Some (PPath p), Some mp => lbeq p mp
  | Some (PNamespace ns), Some mp => in_namespace ns mp
  end.

Definition s_destination (r : rule) (m : msg) : bool :=
  match r_destination r, m_destination m with
  | None, _ => true
  | Some _, None => false
  | Some d, Some (BUnique u) => lbeq d u
  | Some d, Some (BWellKnown w) => owns w d
  end.

Definition s_arg (body : list arg) (ia : N * bytes) : bool :=
  match nth_error body (N.to_nat (fst ia)) with
  | Some (AStr a) => lbeq a (snd ia)
  | _ => false
  end.

Definition ends_with_slash (s : bytes) : bool :=
  match rev s with c :: _ => beq c slash | [] => false end.
Definition path_like_match (v a : bytes) : bool :=
  lbeq a v || (ends_with_slash v && starts_with v a) || (ends_with_slash a && starts_with a v).
Definition s_arg_path (body : list arg) (ia : N * bytes) : bool :=
  match nth_error body (N.to_nat (fst ia)) with
  | Some (AStr a) | Some (APath a) => path_like_match (snd ia) a
  | _ => false
  end.

Definition in_name_namespace (ns a : bytes) : bool := lbeq a ns || starts_with (ns ++ [dot]) a.
Definition s_arg0ns (r : rule) (m : msg) : bool :=
  match r_arg0ns r with
  | None => true
  | Some ns => match m_body m with
               | AStr a :: _ => spec_bus a && in_name_namespace ns a
               | _ => false
               end
  end.

Definition matches_spec (r : rule) (m : msg) : bool :=
  s_type r m && s_sender r m && s_field (r_interface r) (m_interface m) && s_field (r_member r) (m_member m)
  && s_path r m && s_destination r m
  && forallb (s_arg (m_body m)) (r_args r) && forallb (s_arg_path (m_body m)) (r_arg_paths r)
  && s_arg0ns r m.
End WithBus.

(* rule/message pairs whose verdict does not depend on who owns which name: the documented exemption *)
Definition local (r : rule) (m : msg) : bool :=
  match r_sender r with Some (BWellKnown _) => false | _ => true end
  && match r_destination r, m_destination m with Some _, Some (BWellKnown _) => false | _, _ => true end.

(* ------------------------------------------------------------------ known deviation classes
   (each is a syntactic description of where the code is allowed to differ; see Proofs.v) *)
Definition has_args (r : rule) : bool := negb (is_nil (r_args r) && is_nil (r_arg_paths r)).

(* an argNpath key meets a STRING argument, or an OBJECT_PATH argument that differs from the value
   while one of the two ends with '/' *)
Definition k_arg_path_one (body : list arg) (ia : N * bytes) : bool :=
  match nth_error body (N.to_nat (fst ia)) with
  | Some (AStr _) => true
  | Some (APath a) => negb (lbeq a (snd ia)) && (ends_with_slash a || ends_with_slash (snd ia))
  | _ => false
  end.
Definition k_arg_path (r : rule) (m : msg) : bool := existsb (k_arg_path_one (m_body m)) (r_arg_paths r).
(* the body is a single struct argument and the rule has argN / argNpath / arg0namespace keys *)
Definition has_arg0ns (r : rule) : bool := match r_arg0ns r with Some _ => true | None => false end.
Definition k_sole_struct (r : rule) (m : msg) : bool :=
  (has_args r || has_arg0ns r) && match m_body m with [AStructSU _ _] => true | _ => false end.

Definition known_C21 (r : rule) (m : msg) : bool :=
  k_arg_path r m || k_sole_struct r m.

Definition class_of (r : rule) (m : msg) : bytes :=
  if k_arg_path r m then B "arg_path_rules"
  else if k_sole_struct r m then B "sole_struct_flattened"
  else dash.
