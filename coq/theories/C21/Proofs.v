(* C21/Proofs.v — the model of MatchRule::matches against the specification's semantics. *)
From ZV Require Import Base.Bytes Base.Res Base.WinnowFacts C10.Model C10.Spec C10.Proofs C21.Model C21.Spec.
From Coq Require Import Lia.

(* ---- strings ---- *)
Lemma lbeq_refl a : lbeq a a = true.
Proof. now apply lbeq_eq. Qed.
Lemma lbeq_sym a b : lbeq a b = lbeq b a.
Proof.
  destruct (lbeq a b) eqn:E1, (lbeq b a) eqn:E2; try reflexivity.
  - apply lbeq_eq in E1. subst. now rewrite lbeq_refl in E2.
  - apply lbeq_eq in E2. subst. now rewrite lbeq_refl in E1.
Qed.
Lemma starts_with_refl a : starts_with a a = true.
Proof. induction a as [|c a IH]; cbn; [reflexivity|]. now rewrite beq_refl. Qed.
Lemma starts_with_app_l a b : forall p, starts_with (a ++ b) p = true -> starts_with a p = true.
Proof.
  induction a as [|c a IH]; intros p H; [reflexivity|]. destruct p as [|d p]; cbn in *; [discriminate|].
  apply andb_true_iff in H as [H1 H2]. rewrite H1. cbn. now apply IH.
Qed.

Lemma beq_sym a b : beq a b = beq b a.
Proof.
  destruct (beq a b) eqn:E1, (beq b a) eqn:E2; try reflexivity.
  - apply beq_eq in E1. subst. now rewrite beq_refl in E2.
  - apply beq_eq in E2. subst. now rewrite beq_refl in E1.
Qed.

(* strip_prefix in terms of equality / prefix-with-dot: mod.rs:279-283 *)
Lemma strip_prefix_dot ns : forall a,
  match strip_prefix ns a with
  | None => false
  | Some [] => true
  | Some (c :: _) => beq c "."
  end = in_name_namespace ns a.
Proof.
  unfold in_name_namespace. induction ns as [|x ns IH]; intros a.
  - destruct a as [|c a]; [reflexivity|]. cbn [strip_prefix lbeq orb app starts_with]. unfold dot.
    rewrite (beq_sym "." c). now rewrite andb_true_r.
  - destruct a as [|c a]; [reflexivity|]. cbn [strip_prefix lbeq orb app starts_with]. rewrite (beq_sym c x).
    destruct (beq x c) eqn:E; [|reflexivity]. cbn [andb]. apply IH.
Qed.

(* the repaired path_namespace test (fix 8cf9b673) is the specification's *)
Lemma strip_prefix_slash ns : forall p,
  match strip_prefix ns p with Some (c :: _) => beq c "/" | _ => false end = starts_with (ns ++ [slash]) p.
Proof.
  induction ns as [|x ns IH]; intros p.
  - destruct p as [|c p]; [reflexivity|]. cbn [strip_prefix app starts_with]. unfold slash.
    rewrite (beq_sym "/" c). now rewrite andb_true_r.
  - destruct p as [|c p]; [reflexivity|]. cbn [strip_prefix app starts_with].
    destruct (beq x c); [apply IH|reflexivity].
Qed.
Lemma ns_covers_spec ns p : ns_covers ns p = in_namespace ns p.
Proof.
  unfold ns_covers, in_namespace. rewrite strip_prefix_slash. change (B "/") with [slash].
  destruct (lbeq p ns), (lbeq ns [slash]); cbn; try reflexivity.
Qed.

Lemma forallb_cong_ex {A} (k f g : A -> bool) l :
  existsb k l = false -> (forall x, k x = false -> f x = g x) -> forallb f l = forallb g l.
Proof.
  intros Hk Hfg. induction l as [|x l IH]; [reflexivity|]. cbn in *.
  apply orb_false_iff in Hk as [H1 H2]. now rewrite (Hfg x H1), IH.
Qed.

(* ---- component by component ---- *)
Section Components.
Variable owns : bytes -> bytes -> bool.
Variables (r : rule) (m : msg).
Hypothesis Hlocal : local r m = true.
Hypothesis Hknown : known_C21 r m = false.

Lemma known_parts :
  k_arg_path r m = false /\ k_sole_struct r m = false.
Proof.
  unfold known_C21 in Hknown. repeat (apply orb_false_iff in Hknown as [Hknown ?]). auto.
Qed.

Lemma c_type : chk_type r m = s_type r m.
Proof. reflexivity. Qed.

Lemma c_sender : chk_sender r m = s_sender owns r m.
Proof.
  unfold chk_sender, s_sender, local in *. destruct (r_sender r) as [[u|w]|]; cbn in *; try discriminate.
  - destruct (m_sender m); reflexivity.
  - destruct (m_sender m); reflexivity.
Qed.

Lemma c_interface : chk_interface r m = s_field (r_interface r) (m_interface m).
Proof. unfold chk_interface, s_field. destruct (r_interface r), (m_interface m); reflexivity. Qed.
Lemma c_member : chk_member r m = s_field (r_member r) (m_member m).
Proof. unfold chk_member, s_field. destruct (r_member r), (m_member m); reflexivity. Qed.

Lemma c_destination : chk_destination r m = s_destination owns r m.
Proof.
  unfold chk_destination, s_destination, local in *.
  destruct (r_destination r) as [d|]; [|reflexivity].
  destruct (m_destination m) as [[u|w]|]; try reflexivity.
  destruct (r_sender r) as [[?|?]|]; cbn in Hlocal; discriminate.
Qed.

Lemma c_path : chk_path r m = s_path r m.
Proof.
  unfold chk_path, s_path.
  destruct (r_path r) as [[p|ns]|]; [| |reflexivity]; destruct (m_path m) as [mp|]; try reflexivity.
  apply ns_covers_spec.
Qed.

Lemma c_arg0ns : chk_arg0ns r m = s_arg0ns r m.
Proof.
  destruct known_parts as (_ & Hk). unfold chk_arg0ns, s_arg0ns, k_sole_struct, has_arg0ns in *.
  destruct (r_arg0ns r) as [ns|]; [|reflexivity]. rewrite orb_true_r in Hk. cbn [andb] in Hk.
  destruct (m_body m) as [|a0 rest]; [reflexivity|].
  destruct a0; try reflexivity.
  - cbn [body_sig_starts_with_s negb arg0_raw]. rewrite bus_ok.
    destruct (spec_bus s); [|reflexivity]. cbn. apply strip_prefix_dot.
  - destruct rest; [discriminate Hk|reflexivity].
Qed.

Lemma c_args : chk_args r m = forallb (s_arg (m_body m)) (r_args r) && forallb (s_arg_path (m_body m)) (r_arg_paths r).
Proof.
  destruct known_parts as (Hp & Hs). unfold chk_args, k_sole_struct, has_args, k_arg_path in *.
  destruct (is_nil (r_args r) && is_nil (r_arg_paths r)) eqn:En.
  - apply andb_true_iff in En as [E1 E2]. destruct (r_args r); [|discriminate]. destruct (r_arg_paths r); [|discriminate]. reflexivity.
  - cbn [negb andb orb] in Hs.
    assert (Hfields : m_body m = [] \/ (m_body m <> [] /\ body_fields (m_body m) = Some (m_body m))).
    { destruct (m_body m) as [|a [|b rest]]; [now left| |].
      - right. split; [discriminate|]. destruct a; try reflexivity. discriminate.
      - right. split; [discriminate|]. destruct a; reflexivity. }
    destruct Hfields as [E|[_ E]].
    + rewrite E. cbn [body_fields].
      destruct (r_args r) as [|ia l]; cbn.
      * destruct (r_arg_paths r) as [|ib l2]; [discriminate|]. cbn.
        unfold s_arg_path. destruct (N.to_nat (fst ib)); reflexivity.
      * unfold s_arg. destruct (N.to_nat (fst ia)); reflexivity.
    + rewrite E. f_equal.
      * apply forallb_ext'. intros [i v]. unfold chk_arg, s_arg. cbn.
        destruct (nth_error (m_body m) (N.to_nat i)) as [[]|]; try reflexivity. apply lbeq_sym.
      * apply (forallb_cong_ex (k_arg_path_one (m_body m))); [exact Hp|].
        intros [i v]. unfold k_arg_path_one, chk_arg_path, s_arg_path, path_like_match. cbn.
        destruct (nth_error (m_body m) (N.to_nat i)) as [[]|]; try reflexivity; try discriminate.
        intros Hk. rewrite (lbeq_sym v p). destruct (lbeq p v); [reflexivity|]. cbn in Hk.
        apply orb_false_iff in Hk as [H1 H2]. rewrite H1, H2. reflexivity.
Qed.

Lemma matches_partial : matches r m = Ok (matches_spec owns r m).
Proof.
  unfold matches, matches_b, matches_spec.
  rewrite c_type, c_sender, c_interface, c_member, c_destination, c_path, c_arg0ns, c_args.
  f_equal.
  destruct (s_type r m), (s_sender owns r m), (s_field (r_interface r) (m_interface m)),
    (s_field (r_member r) (m_member m)), (s_destination owns r m), (s_path r m), (s_arg0ns r m),
    (forallb (s_arg (m_body m)) (r_args r)), (forallb (s_arg_path (m_body m)) (r_arg_paths r)); reflexivity.
Qed.
End Components.

(* In the documented exemption (well-known sender in the rule, well-known destination on the message)
   the code does not decide, it lets the message through: whatever the bus would say, a message the
   specification delivers is never dropped. *)
Lemma matches_no_false_negative owns r m :
  known_C21 r m = false -> matches_spec owns r m = true -> matches r m = Ok true.
Proof.
  intros Hk Hs. unfold matches, matches_b. f_equal.
  rewrite c_type, c_interface, c_member, c_path, (c_arg0ns r m Hk), (c_args r m Hk).
  unfold matches_spec in Hs. repeat (apply andb_true_iff in Hs as [Hs ?]).
  assert (chk_sender r m = true) as ->.
  { unfold chk_sender, s_sender in *. destruct (r_sender r) as [[u|w]|]; try reflexivity.
    destruct (m_sender m); [assumption|discriminate]. }
  assert (chk_destination r m = true) as ->.
  { unfold chk_destination, s_destination in *. destruct (r_destination r) as [d|]; [|reflexivity].
    destruct (m_destination m) as [[u|w]|]; [assumption|reflexivity|discriminate]. }
  repeat match goal with H : _ = true |- _ => rewrite H; clear H end. reflexivity.
Qed.

(* ------------------------------------------------------------------ the full statement and its refutations *)
Definition C21_full_statement : Prop :=
  forall owns r m, local r m = true -> matches r m = Ok (matches_spec owns r m).

Definition sig_msg (path : bytes) (dest : option busname) (body : list arg) : msg :=
  {| m_type := Signal; m_sender := Some (B ":1.7"); m_interface := Some (B "a.b"); m_member := Some (B "M");
     m_path := Some path; m_destination := dest; m_body := body |}.

(* a counterexample: a rule built by the builder, a message, the code's verdict and the specification's *)
Definition counterexample (ops : list bop) (m : msg) (code : bool) : Prop :=
  exists r, build ops = Ok r /\ local r m = true /\ matches r m = Ok code /\
            forall owns, matches_spec owns r m = negb code.

(* repaired by fix 8cf9b673: the former counterexamples now get the specification's verdict *)
Example dest_absent_fixed : exists r, build [ODest (B ":1.5")] = Ok r /\
  matches r (sig_msg (B "/a") None []) = Ok false /\ known_C21 r (sig_msg (B "/a") None []) = false.
Proof. eexists. split; [reflexivity|]. split; reflexivity. Qed.
Example path_ns_prefix_fixed : exists r, build [OPathNs (B "/a")] = Ok r /\
  matches r (sig_msg (B "/ab") None []) = Ok false /\ matches r (sig_msg (B "/a/b") None []) = Ok true /\
  matches r (sig_msg (B "/a") None []) = Ok true /\ known_C21 r (sig_msg (B "/ab") None []) = false.
Proof. eexists. split; [reflexivity|]. repeat split. Qed.

Lemma arg_path_string_refuted :
  counterexample [OArgPath 0 (B "/a")] (sig_msg (B "/") None [AStr (B "/a")]) false.
Proof. eexists. split; [reflexivity|]. repeat split. Qed.

Lemma arg_path_slash_refuted :
  counterexample [OArgPath 0 (B "/a/b")] (sig_msg (B "/") None [APath (B "/")]) false.
Proof. eexists. split; [reflexivity|]. repeat split. Qed.

Lemma sole_struct_refuted :
  counterexample [OArg 0 (B "x")] (sig_msg (B "/") None [AStructSU (B "x") 7]) true.
Proof. eexists. split; [reflexivity|]. repeat split. Qed.

(* the same flattening lets arg0namespace see the first field of a struct *)
Lemma sole_struct_arg0ns_refuted :
  counterexample [OArg0ns (B "a")] (sig_msg (B "/") None [AStructSU (B "a.b") 7]) true.
Proof. eexists. split; [vm_compute; reflexivity|]. repeat split. Qed.

(* repaired by fix 3ae57b16: a first argument that is not a string is no longer read as one *)
Example arg0ns_untyped_fixed : exists r, build [OArg0ns (B "a")] = Ok r /\
  let m := sig_msg (B "/") None [AU32 3; AByte "a"; AByte "."; AByte "b"; AByte x00] in
  matches r m = Ok false /\ known_C21 r m = false /\
  matches r (sig_msg (B "/") None [APath (B "/a")]) = Ok false /\
  matches r (sig_msg (B "/") None [AStructSU (B "a.b") 7; AU32 1]) = Ok false /\
  matches r (sig_msg (B "/") None [AStr (B "a.b"); AU32 1]) = Ok true.
Proof. eexists. split; [vm_compute; reflexivity|]. repeat split. Qed.

Lemma full_refuted : ~ C21_full_statement.
Proof.
  intros H. destruct sole_struct_refuted as (r & _ & Hl & Hm & Hs).
  specialize (H (fun _ _ => false) _ _ Hl). rewrite Hm, Hs in H. discriminate.
Qed.

(* each witness lies in the class named after it, and in no earlier one *)
Lemma witnesses_classified :
  (forall r, build [OArgPath 0 (B "/a")] = Ok r -> class_of r (sig_msg (B "/") None [AStr (B "/a")]) = B "arg_path_rules") /\
  (forall r, build [OArg 0 (B "x")] = Ok r -> class_of r (sig_msg (B "/") None [AStructSU (B "x") 7]) = B "sole_struct_flattened") /\
  (forall r, build [OArg0ns (B "a")] = Ok r -> class_of r (sig_msg (B "/") None [AStructSU (B "a.b") 7]) = B "sole_struct_flattened").
Proof. repeat split; intros r H; vm_compute in H; inversion H; subst; reflexivity. Qed.

(* ---- non-vacuity: the hypotheses of the partial theorem hold for a rule with every key and a matching
   message, and for near misses ---- *)
Definition ex_ops : list bop :=
  [OType Signal; OSender (B ":1.7"); OInterface (B "a.b"); OMember (B "M"); OPathNs (B "/a"); ODest (B ":1.9");
   OArg 1 (B "x,y"); OArgPath 2 (B "/p/q"); OArg0ns (B "org.zbus")].
Definition ex_msg (path : bytes) (a2 : arg) : msg :=
  sig_msg path (Some (BUnique (B ":1.9"))) [AStr (B "org.zbus.Name"); AStr (B "x,y"); a2].
Example ex_match : exists r, build ex_ops = Ok r /\
  local r (ex_msg (B "/a/b") (APath (B "/p/q"))) = true /\ known_C21 r (ex_msg (B "/a/b") (APath (B "/p/q"))) = false /\
  matches r (ex_msg (B "/a/b") (APath (B "/p/q"))) = Ok true.
Proof. eexists. split; [vm_compute; reflexivity|]. repeat split. Qed.
Example ex_near_miss : exists r, build ex_ops = Ok r /\
  local r (ex_msg (B "/b/a") (APath (B "/p/q"))) = true /\ known_C21 r (ex_msg (B "/b/a") (APath (B "/p/q"))) = false /\
  matches r (ex_msg (B "/b/a") (APath (B "/p/q"))) = Ok false /\
  known_C21 r (ex_msg (B "/a/b") (APath (B "/p"))) = false /\
  matches r (ex_msg (B "/a/b") (APath (B "/p"))) = Ok false.
Proof. eexists. split; [vm_compute; reflexivity|]. repeat split. Qed.
Example ex_exempt : exists r m, build [OSender (B "org.zbus.Srv"); OMember (B "M")] = Ok r /\ local r m = false /\
  known_C21 r m = false /\ matches_spec (fun _ _ => true) r m = true /\ matches r m = Ok true.
Proof. eexists. exists (sig_msg (B "/a") None []). split; [vm_compute; reflexivity|]. repeat split. Qed.

(* ---- sanity of the specification's own formulation: the examples of the D-Bus specification, and agreement of
   the string formulation [in_namespace] with the component formulation [in_namespace_c] on all 40 x 40 pairs of
   object paths with at most three components drawn from {a, ab, b} (a check of the definition, not a theorem
   about all paths) ---- *)
Example spec_path_namespace_examples :
  in_namespace (B "/com/example/foo") (B "/com/example/foo") = true /\
  in_namespace (B "/com/example/foo") (B "/com/example/foo/bar") = true /\
  in_namespace (B "/com/example/foo") (B "/com/example/foobar") = false /\
  in_namespace (B "/") (B "/anything") = true /\ in_namespace (B "/a/b") (B "/a") = false.
Proof. repeat split. Qed.
Example spec_arg_path_examples :      (* "arg0path='/aa/bb/'" of the specification *)
  forallb (path_like_match (B "/aa/bb/")) [B "/"; B "/aa/"; B "/aa/bb/"; B "/aa/bb/cc/"; B "/aa/bb/cc"] = true /\
  existsb (path_like_match (B "/aa/bb/")) [B "/aa/b"; B "/aa"; B "/aa/bb"] = false.
Proof. split; reflexivity. Qed.
Example spec_arg0namespace_examples :  (* "arg0namespace='com.example.backend1'" of the specification *)
  forallb (in_name_namespace (B "com.example.backend1")) [B "com.example.backend1.foo"; B "com.example.backend1.foo.bar"; B "com.example.backend1"] = true /\
  in_name_namespace (B "com.example.backend1") (B "com.example.backend2") = false /\
  in_name_namespace (B "com.example.backend1") (B "com.example.backend10") = false.
Proof. repeat split. Qed.

Definition small_elems : list bytes := [B "a"; B "ab"; B "b"].
Definition small_paths : list bytes :=
  [B "/"] ++ map (fun e => slash :: e) small_elems
  ++ flat_map (fun e => map (fun f => slash :: e ++ slash :: f) small_elems) small_elems
  ++ flat_map (fun e => flat_map (fun f => map (fun g => slash :: e ++ slash :: f ++ slash :: g) small_elems) small_elems) small_elems.
Example in_namespace_formulations_agree :
  length small_paths = 40 /\
  forallb (fun ns => forallb (fun p => Bool.eqb (in_namespace ns p) (in_namespace_c ns p)) small_paths) small_paths = true.
Proof. split; vm_compute; reflexivity. Qed.
