(* C32/Parse.v — the case syntax of harness/hproxy (shared by the C31 and C32 line drivers).
   script  = batch ('/' batch)*      batch = ['!'] ( '-' | ev (',' ev)* )
   ev      = R | Ro<k> | Re | Rs<k=v;..> | g<snd>.<path>.<iface>.<member>.<body>
   body    = e | b | n<name><old><new> | p<ifc>:<k=v;..>:<k;..>                                    *)
From Coq Require Import List NArith Bool.
Import ListNotations.
From ZV Require Import Base.Bytes C32.Model.
Local Open Scope N_scope.

Definition digit_le (mx : N) (c : byte) : option N :=
  if is_digit c then let d := bn c - 48 in if d <=? mx then Some d else None else None.

Definition one_digit (mx : N) (s : bytes) : option N :=
  match s with [c] => digit_le mx c | _ => None end.

Definition opt_digit (c : byte) : option (option N) :=
  if beq c "-"%byte then Some None
  else match digit_le 9 c with Some d => Some (Some d) | None => None end.

Fixpoint all_some {A} (l : list (option A)) : option (list A) :=
  match l with
  | [] => Some []
  | Some a :: r => match all_some r with Some r' => Some (a :: r') | None => None end
  | None :: _ => None
  end.

Definition parse_kv1 (e : bytes) : option (N * N) :=
  match split_on "="%byte e with
  | [k; v] =>
      match one_digit 4 k, N_of_dec v with
      | Some kd, Some vn => if vn <? 4294967296 then Some (kd, vn) else None
      | _, _ => None
      end
  | _ => None
  end.
Definition parse_kv (s : bytes) : option (list (N * N)) :=
  match s with [] => Some [] | _ => all_some (map parse_kv1 (split_on ";"%byte s)) end.
Definition parse_keys (s : bytes) : option (list N) :=
  match s with [] => Some [] | _ => all_some (map (one_digit 4) (split_on ";"%byte s)) end.

Definition parse_body (s : bytes) : option body :=
  match s with
  | [c] => if beq c "e"%byte then Some BEmpty else if beq c "b"%byte then Some BBad else None
  | c :: r =>
      if beq c "n"%byte then
        match r with
        | [n; o; w] =>
            match digit_le 1 n, opt_digit o, opt_digit w with
            | Some nm, Some old, Some new => Some (BNoc nm old new)
            | _, _, _ => None
            end
        | _ => None
        end
      else if beq c "p"%byte then
        match split_on ":"%byte r with
        | [i; ch; inv] =>
            match one_digit 3 i, parse_kv ch, parse_keys inv with
            | Some ifc, Some chl, Some invl => Some (BProps ifc chl invl)
            | _, _, _ => None
            end
        | _ => None
        end
      else None
  | [] => None
  end.

Definition parse_ev (s : bytes) : option wmsg :=
  match s with
  | c :: r =>
      if beq c "R"%byte then
        match r with
        | [] => Some (WRep PPlain)
        | k :: r2 =>
            if beq k "o"%byte then
              match one_digit 9 r2 with Some o => Some (WRep (POwner o)) | None => None end
            else if beq k "e"%byte then match r2 with [] => Some (WRep PErr) | _ => None end
            else if beq k "s"%byte then match parse_kv r2 with Some l => Some (WRep (PSnap l)) | None => None end
            else None
        end
      else if beq c "g"%byte then
        match split_on "."%byte r with
        | [snd; pa; ifc; mem; bd] =>
            match snd, one_digit 2 pa, one_digit 3 ifc, one_digit 3 mem, parse_body bd with
            | [sc], Some p, Some i, Some m, Some b =>
                match opt_digit sc with
                | Some sender =>
                    Some (WSig {| s_sender := sender; s_path := p; s_iface := i; s_member := m; s_body := b |})
                | None => None
                end
            | _, _, _, _, _ => None
            end
        | _ => None
        end
      else None
  | [] => None
  end.

Definition is_rep (m : wmsg) : bool := match m with WRep _ => true | WSig _ => false end.

(* (poll after it?, events); at most one reply per batch *)
Definition parse_batch (s : bytes) : option (bool * list wmsg) :=
  let '(pl, rest) := match s with
                     | c :: r => if beq c "!"%byte then (true, r) else (false, s)
                     | [] => (false, s)
                     end in
  if lbeq rest (B "-") then Some (pl, [])
  else
    match all_some (map parse_ev (split_on ","%byte rest)) with
    | Some evs => if (length (filter is_rep evs) <=? 1)%nat then Some (pl, evs) else None
    | None => None
    end.

Definition parse_script (s : bytes) : option (list (bool * list wmsg)) :=
  all_some (map parse_batch (split_on "/"%byte s)).

Definition parse_dest (s : bytes) : option dest :=
  match s with
  | [c] => if beq c "w"%byte then Some DWell else None
  | [c; k] =>
      if beq c "u"%byte then
        match digit_le 9 k with Some d => if d =? 0 then None else Some (DUnique d) | None => None end
      else None
  | _ => None
  end.

Definition parse_opt_member (s : bytes) : option (option N) :=
  if lbeq s (B "-") then Some None
  else match one_digit 3 s with Some m => Some (Some m) | None => None end.

(* the last batch is always polled *)
Fixpoint force_last_poll (bs : list (bool * list wmsg)) : list (bool * list wmsg) :=
  match bs with
  | [] => []
  | [(_, e)] => [(true, e)]
  | b :: r => b :: force_last_poll r
  end.

Definition call_name (c : N) : bytes :=
  if c =? C_ADDMATCH then B "AddMatch" else if c =? C_GETOWNER then B "GetNameOwner" else B "GetAll".
Definition calls_text (log : list N) : bytes :=
  match log with [] => B "-" | _ => join (B ".") (map call_name (rev log)) end.
Definition nums_text (l : list N) : bytes :=
  match l with [] => B "-" | _ => join (B ".") (map dec_of_N l) end.
