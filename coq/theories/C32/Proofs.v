(* C32/Proofs.v — every run of the model (every schedule of socket reader, stream creation and consumer)
   yields a prefix of what C32/Spec.v demands, and all of it once everything has been read and polled —
   for bus histories (the code as repaired by 902c9069 and 0bffda5d: no known class is left). *)
From Coq Require Import List NArith Bool Lia.
Import ListNotations.
From ZV Require Import Base.Bytes C32.Model C32.Spec C32.Facts.
Local Open Scope N_scope.

(* ---------------------------------------------------------------- small facts *)
Lemma opt_eqb_eq : forall a b, opt_eqb a b = true <-> a = b.
Proof.
  intros [x|] [y|]; cbn; split; intro H; try discriminate; try reflexivity.
  - apply N.eqb_eq in H. subst. reflexivity.
  - inversion H. apply N.eqb_refl.
Qed.

Lemma opt_eqb_refl : forall a, opt_eqb a a = true.
Proof. intro a. apply opt_eqb_eq. reflexivity. Qed.

Lemma opt_eqb_neq : forall a b, opt_eqb a b = false <-> a <> b.
Proof.
  intros a b. split; intro H.
  - intro E. apply opt_eqb_eq in E. congruence.
  - destruct (opt_eqb a b) eqn:E; [|reflexivity]. apply opt_eqb_eq in E. contradiction.
Qed.

(* the NameOwnerChanged rule accepts exactly the driver's notifications for the name *)
Lemma noc_rule_driver : forall s,
  matches noc_rule s = true <-> exists new, driver_noc s = Some new.
Proof.
  intros [snd pa ifc mem bd]. unfold matches, noc_rule, driver_noc, arg0_is.
  cbn [r_sender r_path r_iface r_member r_arg0 s_sender s_path s_iface s_member s_body].
  destruct snd as [x|]; cbn [opt_eqb].
  - destruct (x =? DRIVER), (ifc =? I_DBUS), (mem =? M_NOC), (pa =? P_DRIVER); cbn [andb];
      try (split; [discriminate|intros [? ?]; discriminate]).
    destruct bd as [|nm old new| |]; try (split; [discriminate|intros [? ?]; discriminate]).
    destruct (nm =? NAME_W); split; try discriminate; try (intros [? ?]; discriminate); eauto.
  - cbn [andb]. split; [discriminate|intros [? ?]; discriminate].
Qed.

Lemma driver_noc_new : forall s new, driver_noc s = Some new -> noc_new s = Some new.
Proof.
  intros [snd pa ifc mem bd] new. unfold driver_noc, noc_new. cbn [s_sender s_path s_iface s_member s_body].
  destruct (opt_eqb snd (Some DRIVER) && (pa =? P_DRIVER) && (ifc =? I_DBUS) && (mem =? M_NOC)); [|discriminate].
  destruct bd as [|nm old nw| |]; try discriminate. destruct (nm =? NAME_W); [|discriminate]. congruence.
Qed.

Lemma driver_noc_shape : forall s new, driver_noc s = Some new ->
  s_sender s = Some DRIVER /\ s_path s = P_DRIVER /\ is_noc s = true /\ exists old, s_body s = BNoc NAME_W old new.
Proof.
  intros [snd pa ifc mem bd] new. unfold driver_noc, is_noc. cbn [s_sender s_path s_iface s_member s_body].
  destruct (opt_eqb snd (Some DRIVER)) eqn:E1; cbn [andb]; [|discriminate].
  destruct (pa =? P_DRIVER) eqn:E2; cbn [andb]; [|discriminate].
  destruct (ifc =? I_DBUS) eqn:E3; cbn [andb]; [|discriminate].
  destruct (mem =? M_NOC) eqn:E4; [|discriminate].
  destruct bd as [|nm old nw| |]; try discriminate. destruct (nm =? NAME_W) eqn:E5; [|discriminate].
  intro H. inversion H; subst. apply opt_eqb_eq in E1. apply N.eqb_eq in E2, E5. subst.
  repeat split; eauto.
Qed.

Lemma sig_rule_path : forall cf s, matches (sig_rule cf) s = true -> s_path s = P_OBJ.
Proof.
  intros cf s H. unfold matches, sig_rule, sig_rule_of in H. cbn [r_path] in H.
  repeat (apply andb_true_iff in H; destruct H as [H ?]). apply N.eqb_eq. assumption.
Qed.

Lemma rules_exclusive : forall cf s, matches (sig_rule cf) s && matches noc_rule s = false.
Proof.
  intros cf s. destruct (matches (sig_rule cf) s) eqn:E1; [|reflexivity].
  destruct (matches noc_rule s) eqn:E2; [|reflexivity].
  apply sig_rule_path in E1. apply noc_rule_driver in E2. destruct E2 as [new E2].
  apply driver_noc_shape in E2. destruct E2 as (_ & Hp & _). rewrite E1 in Hp. discriminate.
Qed.

Lemma sig_rule_wanted : forall cf s,
  matches (sig_rule cf) s =
  wanted cf s && match c_dest cf with DUnique u => opt_eqb (s_sender s) (Some u) | DWell => true end.
Proof.
  intros [d pi pm] s. unfold matches, sig_rule, sig_rule_of, wanted.
  cbn [c_dest c_pi c_pm r_sender r_path r_iface r_member r_arg0].
  destruct d as [u|].
  - destruct (s_sender s) as [x|]; cbn [opt_eqb];
      destruct (s_iface s =? pi), (s_path s =? P_OBJ), (match pm with Some m => s_member s =? m | None => true end),
               (match s_sender s with Some x0 => x0 =? u | None => false end);
      try destruct (x =? u); reflexivity.
  - destruct (s_iface s =? pi), (s_path s =? P_OBJ), (match pm with Some m => s_member s =? m | None => true end);
      reflexivity.
Qed.

(* ---------------------------------------------------------------- PendingMethodCall *)
Definition no_reply (c : N) (q : queue (N * payload)) : Prop := Forall (fun e => fst (snd e) <> c) q.

Lemma pmc_no_reply : forall c q, no_reply c q -> pmc_poll c q None = (RPending, []).
Proof.
  induction q as [|[t [k p]] q IH]; intro H; [reflexivity|].
  inversion H as [|? ? Hk Hq]; subst. cbn in Hk. cbn [pmc_poll].
  destruct (k =? c) eqn:E; [apply N.eqb_eq in E; contradiction|]. apply IH. assumption.
Qed.

Lemma pmc_has_reply : forall c stale t p, no_reply c stale ->
  exists q', pmc_poll c (stale ++ [(t, (c, p))]) None = (RItem p t, q').
Proof.
  induction stale as [|[t1 [k p1]] q IH]; intros t p H.
  - cbn. rewrite N.eqb_refl. eauto.
  - inversion H as [|? ? Hk Hq]; subst. cbn in Hk. cbn [app pmc_poll].
    destruct (k =? c) eqn:E; [apply N.eqb_eq in E; contradiction|]. apply IH. assumption.
Qed.

(* reps replies have been read; the call number c is awaited *)
Definition qrep (c reps : N) (qr : queue (N * payload)) : Prop :=
  (reps < c /\ no_reply c qr /\ Forall (fun e => fst (snd e) <= reps) qr) \/
  (reps = c /\ exists stale t p, qr = stale ++ [(t, (c, p))] /\ no_reply c stale).

Lemma qrep_push_other : forall c reps qr t p, reps + 1 < c -> qrep c reps qr -> qrep c (reps + 1) (push qr t (reps + 1, p)).
Proof.
  intros c reps qr t p Hlt [(H1 & H2 & H3)|(H1 & _)]; [|lia].
  left. split; [lia|]. unfold push. split.
  - apply Forall_app. split; [exact H2|]. constructor; [cbn; lia|constructor].
  - apply Forall_app. split; [eapply Forall_impl; [|exact H3]; cbn; intros; lia|]. constructor; [cbn; lia|constructor].
Qed.

Lemma qrep_push_mine : forall c reps qr t p, reps + 1 = c -> qrep c reps qr -> qrep c (reps + 1) (push qr t (reps + 1, p)).
Proof.
  intros c reps qr t p He [(H1 & H2 & H3)|(H1 & _)]; [|lia].
  right. split; [exact He|]. exists qr, t, p. rewrite He. split; [reflexivity|exact H2].
Qed.

(* ---------------------------------------------------------------- NameOwnerChanged queues *)
Definition nstep (s : option N) (e : N * sigm) : option N :=
  match noc_new (snd e) with Some new => new | None => s end.
Definition nend (src : option N) (q : queue sigm) : option N := fold_left nstep q src.

Definition noc_good (e : N * sigm) : Prop :=
  exists new, driver_noc (snd e) = Some new /\ not_driver new = true.
Definition qn_good (q : queue sigm) : Prop := Forall noc_good q.

Lemma nend_app : forall src q1 q2, nend src (q1 ++ q2) = nend (nend src q1) q2.
Proof. intros. unfold nend. apply fold_left_app. Qed.

Lemma nend_nonempty : forall q s1 s2, qn_good q -> q <> [] -> nend s1 q = nend s2 q.
Proof.
  induction q as [|e q IH]; intros s1 s2 Hg Hne; [contradiction|].
  inversion Hg as [|? ? He Hq]; subst. destruct He as (new & Hd & _).
  unfold nend. cbn [fold_left]. unfold nstep at 2 4. rewrite (driver_noc_new _ _ Hd). reflexivity.
Qed.

Lemma nend_not_driver : forall q src, qn_good q -> not_driver src = true -> not_driver (nend src q) = true.
Proof.
  induction q as [|e q IH]; intros src Hg Hs; [exact Hs|].
  inversion Hg as [|? ? He Hq]; subst. destruct He as (new & Hd & Hn).
  unfold nend. cbn [fold_left]. unfold nstep at 2. rewrite (driver_noc_new _ _ Hd). apply IH; assumption.
Qed.

(* the driver's notifications never pass the sender test and replace src_unique_name *)
Lemma filter_noc : forall src s new, driver_noc s = Some new -> not_driver src = true ->
  ss_filter src s = (false, new).
Proof.
  intros src s new Hd Hs. destruct (driver_noc_shape _ _ Hd) as (Hsnd & _ & Hn & old & Hb).
  unfold ss_filter. rewrite Hsnd, Hn, Hb.
  unfold not_driver in Hs. apply negb_true_iff in Hs.
  destruct (opt_eqb (Some DRIVER) src) eqn:E; [|reflexivity].
  apply opt_eqb_eq in E. subst. rewrite opt_eqb_refl in Hs. discriminate.
Qed.

Lemma frun_nocs : forall q src, qn_good q -> not_driver src = true -> frun src q = ([], nend src q).
Proof.
  induction q as [|[t m] q IH]; intros src Hg Hs; [reflexivity|].
  inversion Hg as [|? ? He Hq]; subst. destruct He as (new & Hd & Hn). cbn [snd] in Hd.
  cbn [frun]. rewrite (filter_noc _ _ _ Hd Hs). rewrite (IH new Hq Hn).
  change (nend src ((t, m) :: q)) with (nend (nstep src (t, m)) q).
  unfold nstep. cbn [snd app]. rewrite (driver_noc_new _ _ Hd). reflexivity.
Qed.

(* ---------------------------------------------------------------- the specification, prefix by prefix *)
Section Spec.
  Variable cf : cfg.

  Definition sp_run (l : list wmsg) : sst := fold_left (sp_step cf) l (sp_init cf).

  Lemma sp_run_snoc : forall l m, sp_run (l ++ [m]) = sp_step cf (sp_run l) m.
  Proof. intros. unfold sp_run. rewrite fold_left_app. reflexivity. Qed.

  Lemma spec_from_app : forall start l1 l2 st idx,
    spec_from cf start st idx (l1 ++ l2) =
    spec_from cf start st idx l1 ++
    spec_from cf start (fold_left (sp_step cf) l1 st) (idx + N.of_nat (length l1)) l2.
  Proof.
    induction l1 as [|m l1 IH]; intros l2 st idx.
    - cbn [app spec_from fold_left length]. rewrite N.add_0_r. reflexivity.
    - cbn [app spec_from fold_left length]. rewrite IH, <- app_assoc. do 3 f_equal. lia.
  Qed.

  Lemma spec_from_early : forall start l st idx,
    idx + N.of_nat (length l) <= start + 1 -> spec_from cf start st idx l = [].
  Proof.
    induction l as [|m l IH]; intros st idx H; [reflexivity|].
    cbn [spec_from]. cbn [length] in H. rewrite IH by lia.
    destruct m as [s|p]; [|reflexivity].
    destruct (start <? idx) eqn:E; [apply N.ltb_lt in E; lia|].
    rewrite andb_false_r. reflexivity.
  Qed.

  Definition spec_pre (start : N) (pre : list wmsg) : list N := spec_from cf start (sp_init cf) 1 pre.

  Lemma spec_pre_snoc : forall start pre m,
    spec_pre start (pre ++ [m]) =
    spec_pre start pre ++
    match m with
    | WSig s => if wanted cf s && (start <? 1 + N.of_nat (length pre)) && from_owner (sp_run pre) s
                then [1 + N.of_nat (length pre)] else []
    | WRep _ => []
    end.
  Proof.
    intros. unfold spec_pre. rewrite spec_from_app. f_equal. cbn [spec_from]. rewrite app_nil_r. reflexivity.
  Qed.

  (* yields so far are a prefix of all yields *)
  Lemma spec_pre_prefix : forall start pre post,
    exists rest, spec_yield cf start (pre ++ post) = spec_pre start pre ++ rest.
  Proof. intros. unfold spec_yield, spec_pre. rewrite spec_from_app. eauto. Qed.

  Lemma sp_rep_snoc_sig : forall st s, sp_rep (sp_step cf st (WSig s)) = sp_rep st.
  Proof.
    intros st s. unfold sp_step. destruct (c_dest cf); [reflexivity|].
    destruct (driver_noc s); [|reflexivity]. destruct (LOOKUP <=? sp_rep st); reflexivity.
  Qed.

  Lemma sp_rep_snoc_rep : forall st p, sp_rep (sp_step cf st (WRep p)) = sp_rep st + 1.
  Proof. intros st p. unfold sp_step. destruct (c_dest cf); reflexivity. Qed.

  Lemma sp_owner_unique : forall u l, c_dest cf = DUnique u -> sp_owner (sp_run l) = Some u.
  Proof.
    intros u l Hd. unfold sp_run, sp_init. rewrite Hd.
    assert (G : forall st, sp_owner st = Some u -> sp_owner (fold_left (sp_step cf) l st) = Some u).
    { induction l as [|m l IH]; intros st Hs; [exact Hs|]. cbn [fold_left]. apply IH.
      unfold sp_step. rewrite Hd. destruct m; assumption. }
    apply G. reflexivity.
  Qed.
End Spec.

(* ---------------------------------------------------------------- the hypotheses about the history, step by step *)
(* the accumulator of consistent_from after a prefix: the owner named by the last notification since reply 1 *)
Definition cstep (a : N * option (option N)) (m : wmsg) : N * option (option N) :=
  match m with
  | WRep _ => (fst a + 1, None)
  | WSig s => match driver_noc s with
              | Some new => (fst a, if 1 <=? fst a then Some new else None)
              | None => a
              end
  end.
Definition cacc (pre : list wmsg) : N * option (option N) := fold_left cstep pre (0, None).

Lemma cacc_snoc : forall pre m, cacc (pre ++ [m]) = cstep (cacc pre) m.
Proof. intros. unfold cacc. rewrite fold_left_app. reflexivity. Qed.

Lemma cstep_sig_fst : forall a s, fst (cstep a (WSig s)) = fst a.
Proof. intros a s. cbn [cstep]. destruct (driver_noc s); reflexivity. Qed.

Lemma consistent_step : forall nrep last m r,
  nrep < 2 -> consistent_from nrep last (m :: r) = true ->
  match m with
  | WRep p => if nrep + 1 =? LOOKUP
              then match last with Some o => lookup_result p = o | None => True end
              else consistent_from (fst (cstep (nrep, last) m)) (snd (cstep (nrep, last) m)) r = true
  | WSig _ => consistent_from (fst (cstep (nrep, last) m)) (snd (cstep (nrep, last) m)) r = true
  end.
Proof.
  intros nrep last m r Hlt H. destruct m as [s|p]; cbn [consistent_from cstep fst snd] in *.
  - destruct (driver_noc s); exact H.
  - destruct (nrep + 1 =? LOOKUP); [|exact H].
    destruct last as [o|]; [|exact I]. apply opt_eqb_eq. exact H.
Qed.

(* ---------------------------------------------------------------- the invariant *)
Definition creation (d : dest) : N := match d with DWell => 3 | DUnique _ => 1 end.

Section Run.
  Variable cf : cfg.
  Variable h : list wmsg.
  Hypothesis Hst : stamped h = true.
  Hypothesis Hdc : existsb (driver_claim_off_path cf) h = false.
  Hypothesis Hown : c_dest cf = DWell -> owners_ok_from 0 h = true.
  Hypothesis Hcon : c_dest cf = DWell -> consistent_from 0 None h = true.

  (* what is known after the prefix [pre] has been read: [todo] is the rest, [reps] replies were in [pre] *)
  Record Base (todo : list wmsg) (seq reps nc : N) (pre : list wmsg) : Prop := {
    b_split : h = pre ++ todo;
    b_len : N.of_nat (length pre) = seq;
    b_reps : sp_rep (sp_run cf pre) = reps;
    b_calls : reps <= nc;
    b_own : c_dest cf = DWell -> owners_ok_from reps todo = true;
    b_con : c_dest cf = DWell -> reps < 2 ->
            fst (cacc pre) = reps /\ consistent_from reps (snd (cacc pre)) todo = true;
    b_nd : c_dest cf = DWell -> not_driver (sp_owner (sp_run cf pre)) = true
  }.

  Lemma Base_init : Base h 0 0 0 [].
  Proof.
    constructor; try reflexivity; try lia; auto.
    intro Hd. unfold sp_run, sp_init. cbn [fold_left]. rewrite Hd. reflexivity.
  Qed.

  Lemma Base_calls : forall todo seq reps nc nc' pre, nc <= nc' -> Base todo seq reps nc pre -> Base todo seq reps nc' pre.
  Proof. intros ? ? ? ? ? ? Hle [? ? ? ? ? ? ?]. constructor; auto. lia. Qed.

  Lemma Base_sig : forall s rest seq reps nc pre,
    Base (WSig s :: rest) seq reps nc pre -> Base rest (seq + 1) reps nc (pre ++ [WSig s]).
  Proof.
    intros s rest seq reps nc pre [Hs Hl Hr Hc Ho Hk Hn]. constructor.
    - rewrite <- app_assoc. exact Hs.
    - rewrite app_length. cbn [length]. lia.
    - rewrite sp_run_snoc, sp_rep_snoc_sig. exact Hr.
    - exact Hc.
    - intro Hd. specialize (Ho Hd). cbn [owners_ok_from] in Ho. apply andb_true_iff in Ho. tauto.
    - intros Hd Hlt. destruct (Hk Hd Hlt) as [Hf Hcs]. rewrite cacc_snoc.
      pose proof (consistent_step reps (snd (cacc pre)) (WSig s) rest Hlt Hcs) as Hx. cbn beta iota in Hx.
      replace (cacc pre) with (reps, snd (cacc pre)) by (destruct (cacc pre); cbn in *; congruence).
      rewrite cstep_sig_fst in Hx. rewrite cstep_sig_fst. cbn [fst] in *. split; [reflexivity|exact Hx].
    - intro Hd. rewrite sp_run_snoc. unfold sp_step. rewrite Hd.
      destruct (driver_noc s) as [new|] eqn:E; [|exact (Hn Hd)].
      destruct (LOOKUP <=? sp_rep (sp_run cf pre)); [|exact (Hn Hd)]. cbn [sp_owner].
      specialize (Ho Hd). cbn [owners_ok_from] in Ho. rewrite E in Ho. apply andb_true_iff in Ho. tauto.
  Qed.

  Lemma Base_rep : forall p rest seq reps nc pre,
    reps < nc ->
    Base (WRep p :: rest) seq reps nc pre -> Base rest (seq + 1) (reps + 1) nc (pre ++ [WRep p]).
  Proof.
    intros p rest seq reps nc pre Hlt [Hs Hl Hr Hc Ho Hk Hn]. constructor.
    - rewrite <- app_assoc. exact Hs.
    - rewrite app_length. cbn [length]. lia.
    - rewrite sp_run_snoc, sp_rep_snoc_rep. lia.
    - lia.
    - intro Hd. specialize (Ho Hd). cbn [owners_ok_from] in Ho. apply andb_true_iff in Ho. tauto.
    - intros Hd Hlt2. assert (Hlt1 : reps < 2) by lia. destruct (Hk Hd Hlt1) as [Hf Hcs]. rewrite cacc_snoc.
      pose proof (consistent_step reps (snd (cacc pre)) (WRep p) rest Hlt1 Hcs) as Hx. cbn beta iota in Hx.
      replace (cacc pre) with (reps, snd (cacc pre)) by (destruct (cacc pre); cbn in *; congruence).
      destruct (reps + 1 =? LOOKUP) eqn:E; [apply N.eqb_eq in E; unfold LOOKUP in E; lia|].
      split; [reflexivity|exact Hx].
    - intro Hd. rewrite sp_run_snoc. unfold sp_step. rewrite Hd. cbn [sp_owner].
      destruct (sp_rep (sp_run cf pre) + 1 =? LOOKUP) eqn:E; [|exact (Hn Hd)].
      specialize (Ho Hd). cbn [owners_ok_from] in Ho. rewrite <- Hr in Ho. rewrite E in Ho.
      apply andb_true_iff in Ho. tauto.
  Qed.

  (* every message of the history is stamped, and a wanted signal of NameOwnerChanged shape is not the driver's *)
  Lemma in_hist : forall todo seq reps nc pre s rest,
    Base todo seq reps nc pre -> todo = WSig s :: rest ->
    s_sender s <> None /\ (wanted cf s = true -> is_noc s = true -> opt_eqb (s_sender s) (Some DRIVER) = false).
  Proof.
    intros todo seq reps nc pre s rest B E. destruct B as [Hs _ _ _ _ _ _]. subst todo.
    assert (Hin : In (WSig s) h) by (rewrite Hs; apply in_or_app; right; left; reflexivity).
    split.
    - unfold stamped in Hst. rewrite forallb_forall in Hst. specialize (Hst _ Hin). cbn in Hst.
      destruct (s_sender s); [discriminate|discriminate].
    - intros Hw En. destruct (opt_eqb (s_sender s) (Some DRIVER)) eqn:Ed; [|reflexivity].
      assert (Hx : existsb (driver_claim_off_path cf) h = true).
      { apply existsb_exists. exists (WSig s). split; [exact Hin|]. cbn. rewrite Hw, En, Ed. reflexivity. }
      congruence.
  Qed.

  (* ---- what is known in each phase *)
  Definition PInv (w : world) (pre : list wmsg) : Prop :=
    let sg := sp_run cf pre in
    match w_ph w with
    | PhFailed => w_out w = [] /\ w_reps w = ncalls w /\ ncalls w <= creation (c_dest cf)
    | PhPanic => False
    | PhStart => w_log w = [] /\ w_out w = []
    | PhAddN c qr => c_dest cf = DWell /\ c = 1 /\ ncalls w = 1 /\ w_out w = [] /\ qrep 1 (w_reps w) qr
    | PhOwner c j qn fut =>
        c_dest cf = DWell /\ c = 2 /\ ncalls w = 2 /\ j = JNone /\ w_out w = [] /\
        qn_good qn /\ sorted qn /\ all_le (w_seq w) qn /\
        ((w_reps w = 1 /\ fut = Some [] /\ (qn = [] \/ snd (cacc pre) = Some (nend None qn))) \/
         (w_reps w = 2 /\ exists tr p qb qa,
             fut = Some [(tr, (2, p))] /\ qn = qb ++ qa /\ all_lt tr qb /\ all_gt tr qa /\
             (qb = [] \/ lookup_result p = nend None qb) /\
             sp_owner sg = nend (lookup_result p) qa /\ tr <= w_seq w))
    | PhAddS c src qn qr =>
        w_out w = [] /\
        match c_dest cf with
        | DWell =>
            c = 3 /\ ncalls w = 3 /\ not_driver src = true /\ qrep 3 (w_reps w) qr /\ 1 <= w_reps w /\
            exists q, qn = Some q /\ qn_good q /\ sorted q /\ all_le (w_seq w) q /\
                      ((w_reps w = 1 /\ snd (cacc pre) = Some (nend src q)) \/
                       (2 <= w_reps w /\ sp_owner sg = nend src q))
        | DUnique u => c = 1 /\ ncalls w = 1 /\ qn = None /\ src = Some u /\ qrep 1 (w_reps w) qr
        end
    | PhReady st =>
        w_reps w = ncalls w /\ ncalls w = creation (c_dest cf) /\ ss_ok (w_seq w) st /\ w_start w <= w_seq w /\
        (match c_dest cf with DWell => ss_qn st <> None | DUnique _ => ss_qn st = None end) /\
        rev (w_out w) ++ map fst (ss_pend st) = spec_pre cf (w_start w) pre /\
        ss_end st = sp_owner sg
    end.

  Definition CInv1 (w : world) (pre : list wmsg) : Prop :=
    Base (w_todo w) (w_seq w) (w_reps w) (ncalls w) pre /\ PInv w pre.
  Definition WInv (w : world) : Prop := exists pre, CInv1 w pre.

  (* ---- delivery of a signal to the queue of the NameOwnerChanged receiver *)
  Lemma noc_push : forall n s q,
    qn_good q -> sorted q -> all_le n q ->
    (c_dest cf = DWell -> forall new, driver_noc s = Some new -> not_driver new = true) -> c_dest cf = DWell ->
    let q' := if matches noc_rule s then push q (n + 1) s else q in
    qn_good q' /\ sorted q' /\ all_le (n + 1) q' /\
    (forall src, nend src q' = match driver_noc s with Some new => new | None => nend src q end) /\
    (matches noc_rule s = false -> driver_noc s = None).
  Proof.
    intros n s q Hg Hso Hle Hnd Hd q'. subst q'.
    destruct (matches noc_rule s) eqn:E.
    - apply noc_rule_driver in E. destruct E as [new E]. rewrite E.
      split; [|split; [|split; [|split]]].
      + unfold push. apply Forall_app. split; [exact Hg|]. constructor; [|constructor].
        exists new. split; [exact E|]. apply Hnd; assumption.
      + unfold push. apply sorted_app_one; [exact Hso|]. eapply all_le_mono; [|exact Hle]. lia.
      + apply all_le_push. exact Hle.
      + intro src. unfold push. rewrite nend_app. unfold nend. cbn [fold_left]. unfold nstep. cbn [snd].
        rewrite (driver_noc_new _ _ E). reflexivity.
      + discriminate.
    - assert (Hn : driver_noc s = None).
      { destruct (driver_noc s) as [new|] eqn:E2; [|reflexivity].
        assert (matches noc_rule s = true) by (apply noc_rule_driver; eauto). congruence. }
      rewrite Hn. repeat split; auto. eapply all_le_mono; [|exact Hle]. lia.
  Qed.

  Lemma jwf_deliver : forall r t s st, jwf st -> jwf (ss_deliver r t s st).
  Proof. intros r t s [j qs qn src] H. unfold jwf, ss_deliver in *. cbn in *. destruct qn; exact H. Qed.

  (* ---- a signal arrives while the stream exists *)
  Lemma ready_sig : forall st n s sg start,
    ss_ok n st -> start <= n ->
    (match c_dest cf with DWell => ss_qn st <> None /\ LOOKUP <= sp_rep sg | DUnique _ => ss_qn st = None end) ->
    ss_end st = sp_owner sg ->
    (c_dest cf = DWell -> not_driver (sp_owner sg) = true) ->
    (c_dest cf = DWell -> forall new, driver_noc s = Some new -> not_driver new = true) ->
    (forall u, c_dest cf = DUnique u -> sp_owner sg = Some u) ->
    s_sender s <> None -> (wanted cf s = true -> is_noc s = true -> opt_eqb (s_sender s) (Some DRIVER) = false) ->
    let st' := ss_deliver (sig_rule cf) (n + 1) s st in
    ss_ok (n + 1) st' /\
    (match c_dest cf with DWell => ss_qn st' <> None | DUnique _ => ss_qn st' = None end) /\
    ss_pend st' =
      ss_pend st ++ (if wanted cf s && (start <? n + 1) && from_owner sg s then [(n + 1, s)] else []) /\
    ss_end st' = sp_owner (sp_step cf sg (WSig s)).
  Proof.
    intros st n s sg start (Hwf & Hso & Hle) Hstart Hq He Hnd Hnew Hu Hsnd Hnoc st'.
    assert (Hm : ss_merged st' = ss_merged st ++
              (if matches (sig_rule cf) s || (match ss_qn st with Some _ => matches noc_rule s | None => false end)
               then [(n + 1, s)] else [])).
    { apply ss_deliver_merged; [exact Hle|apply rules_exclusive]. }
    assert (Hsrc : ss_src st' = ss_src st) by reflexivity.
    assert (Hqn : match c_dest cf with DWell => ss_qn st' <> None | DUnique _ => ss_qn st' = None end).
    { subst st'. unfold ss_deliver. cbn [ss_qn]. destruct (c_dest cf).
      - rewrite Hq. reflexivity.
      - destruct Hq as [Hq _]. destruct (ss_qn st); [discriminate|contradiction]. }
    assert (Hlt : (start <? n + 1) = true) by (apply N.ltb_lt; lia).
    assert (Hok : ss_ok (n + 1) st').
    { split; [apply jwf_deliver; exact Hwf|]. rewrite Hm.
      destruct (matches (sig_rule cf) s || _).
      - split; [apply sorted_app_one; [exact Hso|eapply all_le_mono; [|exact Hle]; lia]|].
        apply Forall_app. split; [eapply all_le_mono; [|exact Hle]; lia|constructor; [cbn; lia|constructor]].
      - rewrite app_nil_r. split; [exact Hso|eapply all_le_mono; [|exact Hle]; lia]. }
    split; [exact Hok|]. split; [exact Hqn|].
    unfold ss_pend, ss_end in *. rewrite Hsrc, Hm. rewrite Hlt, andb_true_r.
    destruct (matches (sig_rule cf) s) eqn:Es; cbn [orb].
    - (* wanted by the stream *)
      rewrite frun_app_one. cbn [fst snd]. rewrite He.
      rewrite sig_rule_wanted in Es. apply andb_true_iff in Es. destruct Es as [Hw Hsu].
      specialize (Hnoc Hw).
      assert (Hf : ss_filter (sp_owner sg) s = (opt_eqb (s_sender s) (sp_owner sg), sp_owner sg)).
      { unfold ss_filter. destruct (opt_eqb (s_sender s) (sp_owner sg)); [reflexivity|].
        destruct (is_noc s); [rewrite (Hnoc eq_refl)|]; reflexivity. }
      rewrite Hf. cbn [fst snd]. rewrite Hw. cbn [andb].
      assert (Hfo : from_owner sg s = opt_eqb (s_sender s) (sp_owner sg)).
      { unfold from_owner. destruct (sp_owner sg) as [o|]; [reflexivity|].
        destruct (s_sender s); [reflexivity|contradiction]. }
      rewrite Hfo. split.
      + destruct (opt_eqb (s_sender s) (sp_owner sg)); reflexivity.
      + (* the owner is untouched: the signal is on the proxy's path, not the driver's *)
        unfold sp_step. destruct (c_dest cf); [reflexivity|].
        destruct (driver_noc s) as [new|] eqn:Ed; [|reflexivity].
        destruct (driver_noc_shape _ _ Ed) as (_ & Hp & _).
        unfold wanted in Hw. apply andb_true_iff in Hw. destruct Hw as [Hw _].
        apply andb_true_iff in Hw. destruct Hw as [Hw _]. apply N.eqb_eq in Hw. rewrite Hw in Hp. discriminate.
    - destruct (c_dest cf) as [u|] eqn:Ed.
      + (* unique name: nothing is queued, the specification ignores it too *)
        rewrite Hq, app_nil_r. rewrite sig_rule_wanted, Ed in Es.
        split; [|unfold sp_step; rewrite Ed; exact He].
        destruct (wanted cf s); cbn [andb]; [|rewrite app_nil_r; reflexivity].
        cbn [andb] in Es. unfold from_owner. rewrite (Hu u eq_refl), Es, app_nil_r. reflexivity.
      + rewrite sig_rule_wanted, Ed, andb_true_r in Es. rewrite Es. cbn [andb]. rewrite app_nil_r.
        destruct Hq as [Hq Hrep]. destruct (ss_qn st) as [q|]; [|contradiction].
        destruct (matches noc_rule s) eqn:En.
        * apply noc_rule_driver in En. destruct En as [new En].
          rewrite frun_app_one. cbn [fst snd]. rewrite He.
          rewrite (filter_noc _ _ _ En (Hnd eq_refl)). cbn [fst snd]. rewrite app_nil_r.
          split; [reflexivity|]. unfold sp_step. rewrite Ed, En.
          destruct (LOOKUP <=? sp_rep sg) eqn:El; [reflexivity|]. apply N.leb_gt in El. lia.
        * rewrite app_nil_r. split; [reflexivity|]. rewrite He. unfold sp_step. rewrite Ed.
          destruct (driver_noc s) as [new|] eqn:E2; [|reflexivity].
          assert (matches noc_rule s = true) by (apply noc_rule_driver; eauto). congruence.
  Qed.

  Lemma base_new_ok : forall s rest seq reps nc pre,
    Base (WSig s :: rest) seq reps nc pre ->
    c_dest cf = DWell -> forall new, driver_noc s = Some new -> not_driver new = true.
  Proof.
    intros s rest seq reps nc pre B Hd new En. pose proof (b_own _ _ _ _ _ B Hd) as Ho.
    cbn [owners_ok_from] in Ho. rewrite En in Ho. apply andb_true_iff in Ho. tauto.
  Qed.

  Lemma dest_cases : c_dest cf = DWell \/ exists u, c_dest cf = DUnique u.
  Proof. destruct (c_dest cf); eauto. Qed.

  Lemma base_fst1 : forall todo seq reps nc pre,
    Base todo seq reps nc pre -> c_dest cf = DWell -> reps = 1 -> fst (cacc pre) = 1.
  Proof.
    intros todo seq reps nc pre B Hd Hr. destruct (b_con _ _ _ _ _ B Hd) as [Hf _]; [lia|]. congruence.
  Qed.

  Lemma cacc_sig_none : forall pre s, driver_noc s = None -> cacc (pre ++ [WSig s]) = cacc pre.
  Proof. intros. rewrite cacc_snoc. cbn [cstep]. rewrite H. reflexivity. Qed.

  Lemma cacc_sig_some : forall pre s new, driver_noc s = Some new -> fst (cacc pre) = 1 ->
    snd (cacc (pre ++ [WSig s])) = Some new.
  Proof. intros pre s new H H1. rewrite cacc_snoc. cbn [cstep]. rewrite H, H1. reflexivity. Qed.

  Lemma owner_sig_none : forall sg s, driver_noc s = None -> sp_owner (sp_step cf sg (WSig s)) = sp_owner sg.
  Proof. intros sg s H. unfold sp_step. destruct (c_dest cf); [reflexivity|]. rewrite H. reflexivity. Qed.

  Lemma owner_sig_some : forall sg s new, c_dest cf = DWell -> driver_noc s = Some new -> LOOKUP <= sp_rep sg ->
    sp_owner (sp_step cf sg (WSig s)) = new.
  Proof.
    intros sg s new Hd H Hl. unfold sp_step. rewrite Hd, H.
    destruct (LOOKUP <=? sp_rep sg) eqn:E; [reflexivity|]. apply N.leb_gt in E. lia.
  Qed.

  (* ---- the socket reader hands over a signal *)
  Lemma tick_sig_inv : forall w pre s rest,
    w_todo w = WSig s :: rest ->
    Base (w_todo w) (w_seq w) (w_reps w) (ncalls w) pre -> PInv w pre ->
    let w' := {| w_todo := rest; w_seq := w_seq w + 1; w_reps := w_reps w; w_log := w_log w;
                 w_ph := deliver_sig cf (w_seq w + 1) s (w_ph w); w_out := w_out w; w_start := w_start w |} in
    Base rest (w_seq w + 1) (w_reps w) (ncalls w) (pre ++ [WSig s]) /\ PInv w' (pre ++ [WSig s]).
  Proof.
    intros w pre s rest Et B P w'. subst w'. rewrite Et in B.
    split; [apply Base_sig; exact B|].
    pose proof (base_new_ok _ _ _ _ _ _ B) as Hnew.
    destruct (in_hist _ _ _ _ _ s rest B eq_refl) as [Hsnd Hnoc].
    unfold PInv in *. cbn [w_ph w_out w_log w_seq w_reps w_start ncalls].
    change (ncalls {| w_todo := rest; w_seq := w_seq w + 1; w_reps := w_reps w; w_log := w_log w;
                      w_ph := deliver_sig cf (w_seq w + 1) s (w_ph w); w_out := w_out w; w_start := w_start w |}) with (ncalls w).
    destruct (w_ph w) as [|c qr|c j qn fut|c src qn qr|st| |] eqn:Eph; cbn [deliver_sig]; try exact P.
    - (* PhOwner *)
      destruct P as (Hd & Hc & Hn & Hj & Ho & Hg & Hso & Hle & Hcase).
      destruct (noc_push (w_seq w) s qn Hg Hso Hle Hnew Hd) as (Hg' & Hso' & Hle' & Hne & Hnone).
      repeat (split; [assumption|]).
      destruct Hcase as [(Hr & Hf & Hq)|(Hr & tr & p & qb & qa & Hf & Hqn & Hb & Ha & Hlk & Hown' & Htr)].
      + left. split; [exact Hr|]. split; [exact Hf|].
        destruct (matches noc_rule s) eqn:Em.
        * right. apply noc_rule_driver in Em. destruct Em as [new Em].
          rewrite Hne, Em. apply cacc_sig_some; [exact Em|].
          exact (base_fst1 _ _ _ _ _ B Hd Hr).
        * rewrite (cacc_sig_none _ _ (Hnone eq_refl)). exact Hq.
      + right. split; [exact Hr|].
        destruct (matches noc_rule s) eqn:Em.
        * apply noc_rule_driver in Em. destruct Em as [new Em].
          exists tr, p, qb, (qa ++ [(w_seq w + 1, s)]).
          split; [exact Hf|]. split; [unfold push; rewrite Hqn, app_assoc; reflexivity|].
          split; [exact Hb|]. split; [apply Forall_app; split; [exact Ha|constructor; [cbn; lia|constructor]]|].
          split; [exact Hlk|]. split; [|lia].
          rewrite sp_run_snoc, (owner_sig_some _ _ new Hd Em) by (rewrite (b_reps _ _ _ _ _ B); unfold LOOKUP; lia).
          rewrite nend_app. unfold nend at 1. cbn [fold_left]. unfold nstep. cbn [snd].
          rewrite (driver_noc_new _ _ Em). reflexivity.
        * exists tr, p, qb, qa. repeat (split; [assumption|]). split; [|lia].
          rewrite sp_run_snoc, (owner_sig_none _ _ (Hnone eq_refl)). exact Hown'.
    - (* PhAddS *)
      destruct P as (Ho & P). split; [exact Ho|].
      destruct dest_cases as [Hd|[u Hd]]; rewrite Hd in P |- *.
      2: { destruct P as (Hc & Hn & Hq & Hs & Hr). subst qn. cbn [option_map]. repeat split; assumption. }
      + destruct P as (Hc & Hn & Hnd & Hr & H1 & q & Hq & Hg & Hso & Hle & Hcase). subst qn. cbn [option_map].
        destruct (noc_push (w_seq w) s q Hg Hso Hle Hnew Hd) as (Hg' & Hso' & Hle' & Hne & Hnone).
        repeat (split; [assumption|]).
        eexists. split; [reflexivity|]. repeat (split; [assumption|]).
        destruct Hcase as [(Hr1 & Hl)|(Hr2 & Hown')].
        * left. split; [exact Hr1|].
          destruct (matches noc_rule s) eqn:Em.
          -- apply noc_rule_driver in Em. destruct Em as [new Em]. rewrite Hne, Em.
             apply cacc_sig_some; [exact Em|]. exact (base_fst1 _ _ _ _ _ B Hd Hr1).
          -- rewrite (cacc_sig_none _ _ (Hnone eq_refl)), Hne, (Hnone eq_refl). exact Hl.
        * right. split; [exact Hr2|]. rewrite sp_run_snoc, Hne.
          destruct (driver_noc s) as [new|] eqn:Em.
          -- apply owner_sig_some; [exact Hd|exact Em|]. rewrite (b_reps _ _ _ _ _ B). unfold LOOKUP. lia.
          -- rewrite owner_sig_none by exact Em. exact Hown'.
    - (* PhReady *)
      destruct P as (Hr & Hn & Hok & Hstart & Hq & Hy & He).
      assert (Hq' : match c_dest cf with
                    | DWell => ss_qn st <> None /\ LOOKUP <= sp_rep (sp_run cf pre)
                    | DUnique _ => ss_qn st = None
                    end).
      { destruct dest_cases as [Hd|[u Hd]]; rewrite Hd in Hq, Hn |- *; [|exact Hq]. split; [exact Hq|].
        rewrite (b_reps _ _ _ _ _ B), Hr, Hn. cbn. unfold LOOKUP. lia. }
      destruct (ready_sig st (w_seq w) s (sp_run cf pre) (w_start w) Hok Hstart Hq' He
                  (b_nd _ _ _ _ _ B) Hnew (fun u Hu => sp_owner_unique cf u pre Hu) Hsnd Hnoc)
        as (Hok' & Hqn' & Hp' & He').
      split; [exact Hr|]. split; [exact Hn|]. split; [exact Hok'|]. split; [lia|]. split; [exact Hqn'|].
      split.
      + rewrite Hp', map_app, app_assoc, Hy, spec_pre_snoc.
        rewrite (b_len _ _ _ _ _ B). replace (1 + w_seq w) with (w_seq w + 1) by lia.
        destruct (wanted cf s && (w_start w <? w_seq w + 1) && from_owner (sp_run cf pre) s); reflexivity.
      + rewrite sp_run_snoc. exact He'.
  Qed.

  Lemma owner_rep : forall sg p,
    sp_owner (sp_step cf sg (WRep p)) =
    match c_dest cf with
    | DWell => if sp_rep sg + 1 =? LOOKUP then lookup_result p else sp_owner sg
    | DUnique _ => sp_owner sg
    end.
  Proof. intros. unfold sp_step. destruct (c_dest cf); reflexivity. Qed.

  (* the lookup answer agrees with the notifications read since reply 1 *)
  Lemma base_lookup : forall p rest seq nc pre o,
    Base (WRep p :: rest) seq 1 nc pre -> c_dest cf = DWell -> snd (cacc pre) = Some o -> lookup_result p = o.
  Proof.
    intros p rest seq nc pre o B Hd Hl. destruct (b_con _ _ _ _ _ B Hd) as [_ Hc]; [lia|].
    rewrite Hl in Hc. cbn in Hc. apply opt_eqb_eq. exact Hc.
  Qed.

  (* ---- the socket reader hands over a reply *)
  Lemma tick_rep_inv : forall w pre p rest,
    w_todo w = WRep p :: rest -> w_reps w < ncalls w ->
    Base (w_todo w) (w_seq w) (w_reps w) (ncalls w) pre -> PInv w pre ->
    let w' := {| w_todo := rest; w_seq := w_seq w + 1; w_reps := w_reps w + 1; w_log := w_log w;
                 w_ph := deliver_rep (w_seq w + 1) (w_reps w + 1) p (w_ph w); w_out := w_out w;
                 w_start := w_start w |} in
    Base rest (w_seq w + 1) (w_reps w + 1) (ncalls w) (pre ++ [WRep p]) /\ PInv w' (pre ++ [WRep p]).
  Proof.
    intros w pre p rest Et Hlt B P w'. subst w'. rewrite Et in B.
    split; [apply Base_rep; assumption|].
    unfold PInv in *. cbn [w_ph w_out w_log w_seq w_reps w_start].
    change (ncalls {| w_todo := rest; w_seq := w_seq w + 1; w_reps := w_reps w + 1; w_log := w_log w;
                      w_ph := deliver_rep (w_seq w + 1) (w_reps w + 1) p (w_ph w); w_out := w_out w;
                      w_start := w_start w |}) with (ncalls w).
    destruct (w_ph w) as [|c qr|c j qn fut|c src qn qr|st| |] eqn:Eph; cbn [deliver_rep]; try exact P.
    - destruct P as (Hd & Hc & Hn & Ho & Hq). repeat (split; [assumption|]).
      apply qrep_push_mine; [lia|exact Hq].
    - (* PhOwner *)
      destruct P as (Hd & Hc & Hn & Hj & Ho & Hg & Hso & Hle & Hcase).
      destruct Hcase as [(Hr & Hf & Hq)|(Hr & _)]; [|lia]. subst fut. cbn [deliver_rep].
      repeat (split; [assumption|]). split; [eapply all_le_mono; [|exact Hle]; lia|].
      right. split; [lia|]. exists (w_seq w + 1), p, qn, []. rewrite Hr. cbn [push app].
      split; [reflexivity|]. split; [rewrite app_nil_r; reflexivity|].
      split; [apply all_le_lt_succ; exact Hle|]. split; [constructor|]. split.
      + destruct Hq as [Hq|Hq]; [left; exact Hq|right]. rewrite Hr in B.
        exact (base_lookup _ _ _ _ _ _ B Hd Hq).
      + split; [|lia]. rewrite sp_run_snoc, owner_rep, Hd, (b_reps _ _ _ _ _ B), Hr. reflexivity.
    - (* PhAddS *)
      destruct P as (Ho & P). split; [exact Ho|].
      destruct dest_cases as [Hd|[u Hd]]; rewrite Hd in P |- *.
      + destruct P as (Hc & Hn & Hnd & Hr & H1 & q & Hq & Hg & Hso & Hle & Hcase).
        split; [exact Hc|]. split; [exact Hn|]. split; [exact Hnd|].
        assert (Hq3 : qrep 3 (w_reps w + 1) (push qr (w_seq w + 1) (w_reps w + 1, p))).
        { assert (w_reps w = 1 \/ w_reps w = 2) as [E|E] by lia.
          - apply qrep_push_other; [lia|exact Hr].
          - apply qrep_push_mine; [lia|exact Hr]. }
        split; [exact Hq3|]. split; [lia|]. exists q. split; [exact Hq|]. split; [exact Hg|]. split; [exact Hso|].
        split; [eapply all_le_mono; [|exact Hle]; lia|]. right. split; [lia|].
        rewrite sp_run_snoc, owner_rep, Hd, (b_reps _ _ _ _ _ B).
        destruct Hcase as [(Hr1 & Hl)|(Hr2 & Hown')].
        * rewrite Hr1. cbn. rewrite Hr1 in B. exact (base_lookup _ _ _ _ _ _ B Hd Hl).
        * assert (E : w_reps w = 2) by lia. rewrite E. cbn. exact Hown'.
      + destruct P as (Hc & Hn & Hq & Hs & Hr). repeat (split; [assumption|]).
        apply qrep_push_mine; [lia|exact Hr].
    - (* PhReady: every call has been answered *)
      destruct P as (Hr & _). lia.
    - (* PhFailed: likewise *)
      destruct P as (_ & Hr & _). lia.
  Qed.

  Lemma tick_inv : forall w w', WInv w -> tick cf w = Some w' -> WInv w'.
  Proof.
    intros w w' (pre & B & P) H. unfold tick in H.
    destruct (w_todo w) as [|[s|p] rest] eqn:Et.
    - inversion H; subst. exists pre. unfold CInv1. rewrite Et. split; assumption.
    - inversion H; subst. rewrite <- Et in B. exists (pre ++ [WSig s]).
      exact (tick_sig_inv w pre s rest Et B P).
    - destruct (w_reps w <? ncalls w) eqn:E; [|discriminate]. apply N.ltb_lt in E.
      inversion H; subst. rewrite <- Et in B. exists (pre ++ [WRep p]).
      exact (tick_rep_inv w pre p rest Et E B P).
  Qed.

  (* ---- the join of SignalStream::new on the four shapes its inputs can have *)
  Lemma owner_poll_empty : owner_poll 2 JNone [] (Some []) = (RPending, JNone, [], Some []).
  Proof. reflexivity. Qed.
  Lemma owner_poll_left : forall ta a q,
    owner_poll 2 JNone ((ta, a) :: q) (Some []) = (RItem (ILeft a) ta, JNone, q, Some []).
  Proof. reflexivity. Qed.
  Lemma owner_poll_right : forall tr p,
    owner_poll 2 JNone [] (Some [(tr, (2, p))]) = (RItem (IRight p) tr, JNone, [], None).
  Proof. reflexivity. Qed.
  Lemma owner_poll_both : forall ta a q tr p,
    owner_poll 2 JNone ((ta, a) :: q) (Some [(tr, (2, p))]) =
    if ta <=? tr then (RItem (ILeft a) ta, JB (IRight p) tr, q, None)
    else (RItem (IRight p) tr, JA (ILeft a) ta, q, None).
  Proof. intros. unfold owner_poll. cbn. destruct (ta <=? tr); reflexivity. Qed.

  Lemma ncalls_call : forall w what ph, ncalls (call w what ph) = ncalls w + 1.
  Proof. intros. unfold ncalls, call. cbn [w_log length]. lia. Qed.

  Lemma good_head : forall t a q, qn_good ((t, a) :: q) ->
    exists old new, s_body a = BNoc NAME_W old new /\ noc_new a = Some new /\ not_driver new = true /\ qn_good q.
  Proof.
    intros t a q H. inversion H as [|? ? (new & Hd & Hn) Hq]; subst. cbn [snd] in Hd.
    destruct (driver_noc_shape _ _ Hd) as (_ & _ & _ & old & Hb).
    exists old, new. repeat split; auto. apply driver_noc_new. exact Hd.
  Qed.

  Lemma nend_cons : forall src t a q new, noc_new a = Some new -> nend src ((t, a) :: q) = nend new q.
  Proof. intros. unfold nend. cbn [fold_left]. unfold nstep at 2. cbn [snd]. rewrite H. reflexivity. Qed.

  Lemma qrep_nil : forall c reps, reps < c -> qrep c reps [].
  Proof. intros. left. split; [assumption|]. split; constructor. Qed.

  (* the world after SignalStream::new has settled on an owner and asked for the signal rule *)
  Definition resolved_world (w : world) (src : option N) (q : queue sigm) : world :=
    call w C_ADDMATCH (fun c' => PhAddS c' src (Some q) []).

  Lemma resolved_inv : forall w pre src q,
    Base (w_todo w) (w_seq w) (w_reps w) (ncalls w) pre -> ncalls w = 2 -> c_dest cf = DWell -> w_out w = [] ->
    not_driver src = true -> qn_good q -> sorted q -> all_le (w_seq w) q ->
    ((w_reps w = 1 /\ snd (cacc pre) = Some (nend src q)) \/
     (w_reps w = 2 /\ sp_owner (sp_run cf pre) = nend src q)) ->
    CInv1 (resolved_world w src q) pre.
  Proof.
    intros w pre src q B Hn Hd Ho Hnd Hg Hso Hle Hcase.
    assert (Hn' : ncalls (resolved_world w src q) = 3).
    { unfold resolved_world, call, ncalls in *. cbn [w_log length]. lia. }
    split.
    - rewrite Hn'. unfold resolved_world, call. cbn [w_todo w_seq w_reps].
      eapply Base_calls; [|exact B]. lia.
    - unfold PInv. rewrite Hn'. unfold resolved_world, call. cbn [w_ph w_out w_reps w_seq]. rewrite Hd, Hn.
      split; [exact Ho|]. split; [reflexivity|]. split; [reflexivity|]. split; [exact Hnd|].
      assert (Hr12 : 1 <= w_reps w <= 2) by (destruct Hcase as [[E _]|[E _]]; lia).
      split; [apply qrep_nil; lia|]. split; [lia|].
      exists q. repeat (split; [first [assumption|reflexivity]|]).
      destruct Hcase as [[E H1]|[E H2]]; [left|right]; split; auto; lia.
  Qed.

  Lemma failed_pinv : forall w pre,
    Base (w_todo w) (w_seq w) (w_reps w) (ncalls w) pre -> w_out w = [] -> w_reps w = ncalls w ->
    ncalls w <= creation (c_dest cf) -> CInv1 (set_ph w PhFailed) pre.
  Proof. intros w pre B Ho Hr Hn. split; [exact B|]. unfold PInv. cbn [w_ph set_ph]. repeat split; assumption. Qed.

  (* ---- the task that creates the stream makes a step *)
  Lemma client_pinv : forall w pre, CInv1 w pre -> CInv1 (client_step cf w) pre.
  Proof.
    intros w pre (B & P). unfold client_step in *. unfold PInv in P.
    destruct (w_ph w) as [|c qr|c j qn fut|c src qn qr|st| |] eqn:Eph;
      try (split; [exact B|unfold PInv; rewrite Eph; exact P]).
    - (* PhStart *)
      destruct P as [Hl Ho].
      assert (Hn0 : ncalls w = 0) by (unfold ncalls; rewrite Hl; reflexivity).
      assert (Hr0 : w_reps w = 0) by (pose proof (b_calls _ _ _ _ _ B); lia).
      destruct dest_cases as [Hd|[u Hd]]; rewrite Hd in *.
      + split.
        * cbn [w_todo w_seq w_reps call]. rewrite ncalls_call. eapply Base_calls; [|exact B]. lia.
        * unfold PInv. cbn [w_ph call w_out w_reps]. rewrite ncalls_call, Hn0, Hr0, Hd.
          repeat split; auto. apply qrep_nil. lia.
      + split.
        * cbn [w_todo w_seq w_reps call]. rewrite ncalls_call. eapply Base_calls; [|exact B]. lia.
        * unfold PInv. cbn [w_ph call w_out w_reps]. rewrite ncalls_call, Hn0, Hr0, Hd.
          repeat split; auto. apply qrep_nil. lia.
    - (* PhAddN *)
      destruct P as (Hd & Hc & Hn & Ho & Hq). subst c.
      destruct Hq as [(Hr & Hnr & _)|(Hr & stale & t & p & Hqr & Hnr)].
      + rewrite (pmc_no_reply _ _ Hnr). split; [exact B|].
        unfold PInv. cbn [w_ph set_ph w_out w_reps]. change (ncalls (set_ph w (PhAddN 1 []))) with (ncalls w).
        repeat split; auto. apply qrep_nil. exact Hr.
      + subst qr. destruct (pmc_has_reply 1 stale t p Hnr) as [q' Hp]. rewrite Hp.
        destruct p; try (apply failed_pinv; [exact B|exact Ho|lia|rewrite Hd; cbn; lia]);
          (split;
           [cbn [w_todo w_seq w_reps call]; rewrite ncalls_call; eapply Base_calls; [|exact B]; lia
           |unfold PInv; cbn [w_ph call w_out w_reps w_seq]; rewrite ncalls_call, Hn;
            split; [exact Hd|]; split; [reflexivity|]; split; [reflexivity|]; split; [reflexivity|];
            split; [exact Ho|]; split; [constructor|]; split; [exact I|]; split; [constructor|];
            left; split; [exact Hr|]; split; [reflexivity|]; left; reflexivity]).
    - (* PhOwner *)
      destruct P as (Hd & Hc & Hn & Hj & Ho & Hg & Hso & Hle & Hcase). subst c j.
      destruct Hcase as [(Hr & Hf & Hq)|(Hr & tr & p & qb & qa & Hf & Hqn & Hb & Ha & Hlk & Hown' & Htr)]; subst fut.
      + (* the lookup has not been answered *)
        destruct qn as [|[ta a] qn'].
        * rewrite owner_poll_empty. split; [exact B|].
          unfold PInv. cbn [w_ph set_ph w_out w_reps w_seq].
          change (ncalls (set_ph w (PhOwner 2 JNone [] (Some [])))) with (ncalls w).
          repeat (split; [first [assumption|reflexivity]|]). left. repeat split; auto.
        * rewrite owner_poll_left.
          destruct (good_head _ _ _ Hg) as (old & new & Hbody & Hnew & Hnd & Hg').
          rewrite Hnew. cbn [apply_queued].
          apply (resolved_inv w pre new qn' B Hn Hd Ho Hnd Hg' (proj2 Hso)).
          -- inversion Hle; assumption.
          -- left. split; [exact Hr|]. destruct Hq as [Hq|Hq]; [discriminate|]. rewrite Hq. f_equal.
             apply nend_cons. exact Hnew.
      + (* the lookup has been answered *)
        destruct qn as [|[ta a] qn'].
        * rewrite owner_poll_right.
          assert (qb = [] /\ qa = []) as [-> ->] by (destruct qb; [split; [reflexivity|exact (eq_sym Hqn)]|discriminate]).
          cbn [nend fold_left] in Hown'.
          assert (Hndl : not_driver (lookup_result p) = true) by (rewrite <- Hown'; apply (b_nd _ _ _ _ _ B Hd)).
          assert (G : CInv1 (resolved_world w (lookup_result p) []) pre).
          { apply (resolved_inv w pre _ [] B Hn Hd Ho Hndl); [constructor|exact I|constructor|].
            right. split; [exact Hr|exact Hown']. }
          destruct p; cbn [apply_queued];
            try (apply failed_pinv; [exact B|exact Ho|lia|rewrite Hd; cbn; lia]);
            exact G.
        * rewrite owner_poll_both in *.
          destruct (good_head _ _ _ Hg) as (old & new & Hbody & Hnew & Hnd & Hg').
          destruct (ta <=? tr) eqn:Ecmp.
          -- (* a notification that came before the answer *)
             apply N.leb_le in Ecmp.
             destruct qb as [|[tb b] qb'].
             { cbn [app] in Hqn. subst qa. inversion Ha as [|? ? Hx _]; subst. cbn in Hx. lia. }
             cbn [app] in Hqn. inversion Hqn; subst tb b qn'. clear Hqn.
             rewrite Hnew. cbn [apply_queued].
             apply (resolved_inv w pre new (qb' ++ qa) B Hn Hd Ho Hnd Hg' (proj2 Hso)).
             ++ inversion Hle; assumption.
             ++ right. split; [exact Hr|]. rewrite Hown', nend_app. f_equal.
                destruct Hlk as [Hlk|Hlk]; [discriminate|]. rewrite Hlk. apply nend_cons. exact Hnew.
          -- (* the answer first; the notification is left in the join *)
             apply N.leb_gt in Ecmp.
             destruct qb as [|[tb b] qb'].
             2: { cbn [app] in Hqn. inversion Hqn; subst. inversion Hb as [|? ? Hx _]; subst. cbn in Hx. lia. }
             cbn [app] in Hqn. subst qa.
             assert (G : forall src0, CInv1 (resolved_world w (apply_queued (JA (ILeft a) ta) src0) qn') pre).
             { intro src0. cbn [apply_queued]. rewrite Hbody, N.eqb_refl.
               apply (resolved_inv w pre new qn' B Hn Hd Ho Hnd Hg' (proj2 Hso)).
               - inversion Hle; assumption.
               - right. split; [exact Hr|]. rewrite Hown'. apply nend_cons. exact Hnew. }
             destruct p;
               try (apply failed_pinv; [exact B|exact Ho|lia|rewrite Hd; cbn; lia]); apply G.
    - (* PhAddS *)
      destruct P as (Ho & P).
      destruct dest_cases as [Hd|[u Hd]]; rewrite Hd in P.
      + destruct P as (Hc & Hn & Hnd & Hr & H1 & q & Hq & Hg & Hso & Hle & Hcase). subst c qn.
        destruct Hr as [(Hr & Hnr & _)|(Hr & stale & t & p & Hqr & Hnr)].
        * rewrite (pmc_no_reply _ _ Hnr). split; [exact B|].
          unfold PInv. cbn [w_ph set_ph w_out w_reps w_seq].
          change (ncalls (set_ph w (PhAddS 3 src (Some q) []))) with (ncalls w). rewrite Hd.
          split; [exact Ho|]. repeat (split; [first [assumption|reflexivity]|]).
          split; [apply qrep_nil; exact Hr|]. split; [exact H1|]. exists q. repeat split; auto.
        * subst qr. destruct (pmc_has_reply 3 stale t p Hnr) as [q' Hp]. rewrite Hp.
          assert (Hown' : sp_owner (sp_run cf pre) = nend src q) by (destruct Hcase as [(E & _)|(_ & E)]; [lia|exact E]).
          destruct p; try (apply failed_pinv; [exact B|exact Ho|lia|rewrite Hd; cbn; lia]);
            (split; [exact B|];
             unfold PInv; cbn [w_ph w_out w_reps w_seq w_start];
             match goal with |- context [ncalls ?x] => change (ncalls x) with (ncalls w) end;
             rewrite Hd, Hn; split; [exact Hr|]; split; [reflexivity|];
             split; [split; [exact I|]; cbn; split; [exact Hso|exact Hle]|];
             split; [lia|]; split; [discriminate|];
             unfold ss_pend, ss_end, ss_merged; cbn [ss_j ss_qs ss_qn ss_src bufA bufB oq app merge];
             rewrite (frun_nocs _ _ Hg Hnd); cbn [fst snd map app rev];
             split; [|exact (eq_sym Hown')];
             rewrite Ho; cbn [rev app]; symmetry; unfold spec_pre; apply spec_from_early; rewrite (b_len _ _ _ _ _ B); lia).
      + destruct P as (Hc & Hn & Hq & Hs & Hr). subst c qn src.
        destruct Hr as [(Hr & Hnr & _)|(Hr & stale & t & p & Hqr & Hnr)].
        * rewrite (pmc_no_reply _ _ Hnr). split; [exact B|].
          unfold PInv. cbn [w_ph set_ph w_out w_reps w_seq].
          change (ncalls (set_ph w (PhAddS 1 (Some u) None []))) with (ncalls w). rewrite Hd.
          repeat split; auto. apply qrep_nil. exact Hr.
        * subst qr. destruct (pmc_has_reply 1 stale t p Hnr) as [q' Hp]. rewrite Hp.
          destruct p; try (apply failed_pinv; [exact B|exact Ho|lia|rewrite Hd; cbn; lia]);
            (split; [exact B|];
             unfold PInv; cbn [w_ph w_out w_reps w_seq w_start];
             match goal with |- context [ncalls ?x] => change (ncalls x) with (ncalls w) end;
             rewrite Hd, Hn; split; [exact Hr|]; split; [reflexivity|];
             split; [split; [left; reflexivity|]; cbn; split; [exact I|constructor]|];
             split; [lia|]; split; [reflexivity|];
             unfold ss_pend, ss_end, ss_merged; cbn [ss_j ss_qs ss_qn ss_src bufA bufB oq app merge frun fst snd map rev];
             split; [|symmetry; apply (sp_owner_unique cf u pre Hd)];
             rewrite Ho; cbn [rev app]; symmetry; unfold spec_pre; apply spec_from_early; rewrite (b_len _ _ _ _ _ B); lia).
  Qed.

  Lemma client_inv : forall w, WInv w -> WInv (client_step cf w).
  Proof. intros w [pre H]. exists pre. apply client_pinv; assumption. Qed.

  (* ---- the consumer polls the stream once *)
  Lemma poll_inv : forall w, WInv w -> WInv (consumer_poll w).
  Proof.
    intros w (pre & B & P). unfold consumer_poll. unfold PInv in P.
    destruct (w_ph w) as [|c qr|c j qn fut|c src qn qr|st| |] eqn:Eph;
      try (exists pre; split; [exact B|unfold PInv; rewrite Eph; exact P]).
    destruct P as (Hr & Hn & (Hwf & Hso & Hle) & Hstart & Hq & Hy & He).
    destruct (ss_poll_spec (ss_fuel st) st None Hwf Hso (ss_fuel_ok st))
      as (r & st' & Ep & Hwf' & Hps & He' & k & Hk).
    rewrite Ep. pose proof (ss_poll_qn _ _ _ _ _ Ep) as Hqn.
    assert (Hok' : ss_ok (w_seq w) st').
    { split; [exact Hwf'|]. rewrite Hk. split; [apply sorted_skipn; exact Hso|apply Forall_skipn; exact Hle]. }
    assert (Hq' : match c_dest cf with DWell => ss_qn st' <> None | DUnique _ => ss_qn st' = None end).
    { destruct (c_dest cf); tauto. }
    destruct r as [m t| | |]; cbn [pspec] in Hps.
    - exists pre. split; [exact B|]. unfold PInv. cbn [w_ph w_out w_reps w_seq w_start].
      match goal with |- context [ncalls ?x] => change (ncalls x) with (ncalls w) end.
      repeat (split; [assumption|]). split; [|congruence].
      rewrite <- Hy, Hps. cbn [rev map fst]. rewrite <- app_assoc. reflexivity.
    - destruct Hps as (_ & H1 & H2). exists pre. split; [exact B|]. unfold PInv. cbn [w_ph set_ph w_out w_reps w_seq w_start].
      change (ncalls (set_ph w (PhReady st'))) with (ncalls w).
      repeat (split; [assumption|]). split; [|congruence]. rewrite <- Hy, H1, H2. reflexivity.
    - destruct Hps as (H1 & _). exists pre. split; [exact B|]. unfold PInv. cbn [w_ph set_ph w_out w_reps w_seq w_start].
      change (ncalls (set_ph w (PhReady st'))) with (ncalls w).
      repeat (split; [assumption|]). split; [|congruence]. rewrite <- Hy, H1. reflexivity.
    - contradiction.
  Qed.

  Lemma init_inv : WInv (init_world h).
  Proof.
    exists []. split; [exact Base_init|]. unfold PInv. cbn. split; reflexivity.
  Qed.

  Lemma step_inv : forall w a, WInv w -> WInv (step cf w a).
  Proof.
    intros w a Hi. destruct a; cbn [step] in *.
    - destruct (tick cf w) as [w'|] eqn:E; [eapply tick_inv; eassumption|exact Hi].
    - apply client_inv; assumption.
    - apply poll_inv; assumption.
  Qed.

  Lemma run_inv : forall sched w, WInv w -> WInv (fold_left (step cf) sched w).
  Proof.
    induction sched as [|a sched IH]; intros w Hi; [exact Hi|].
    cbn [fold_left] in *. apply IH. apply step_inv. exact Hi.
  Qed.

  (* ---- what the invariant says about the yielded items *)
  Lemma inv_prefix : forall w, WInv w -> exists rest, spec_yield cf (w_start w) h = yielded w ++ rest.
  Proof.
    intros w (pre & B & P). unfold yielded. rewrite (b_split _ _ _ _ _ B).
    destruct (spec_pre_prefix cf (w_start w) pre (w_todo w)) as [rest Hr]. rewrite Hr.
    unfold PInv in P. destruct (w_ph w).
    - destruct P as [_ Ho]. rewrite Ho. cbn [rev app]. eauto.
    - destruct P as (_ & _ & _ & Ho & _). rewrite Ho. cbn [rev app]. eauto.
    - destruct P as (_ & _ & _ & _ & Ho & _). rewrite Ho. cbn [rev app]. eauto.
    - destruct P as (Ho & _). rewrite Ho. cbn [rev app]. eauto.
    - destruct P as (_ & _ & _ & _ & _ & Hy & _). rewrite <- Hy, <- app_assoc. eauto.
    - destruct P as (Ho & _). rewrite Ho. cbn [rev app]. eauto.
    - contradiction.
  Qed.

  Lemma inv_complete : forall w, WInv w -> w_todo w = [] -> drained w ->
    yielded w = spec_yield cf (w_start w) h.
  Proof.
    intros w (pre & B & P) Ht Hdr. unfold yielded, drained in *. unfold PInv in P.
    destruct (w_ph w) as [| | | |st| |]; try contradiction.
    destruct P as (_ & _ & (Hwf & Hso & _) & _ & _ & Hy & _). destruct Hdr as [st' Hp].
    destruct (ss_poll_spec (ss_fuel st) st None Hwf Hso (ss_fuel_ok st)) as (r & st2 & Ep & _ & Hps & _).
    rewrite Hp in Ep. inversion Ep; subst r st2. destruct Hps as (_ & H1 & _).
    rewrite H1 in Hy. cbn [map] in Hy. rewrite app_nil_r in Hy.
    rewrite Hy. pose proof (b_split _ _ _ _ _ B) as Hs. rewrite Ht, app_nil_r in Hs. subst pre. reflexivity.
  Qed.
  Lemma pinv_ncalls : forall w pre, PInv w pre -> ncalls w <= creation (c_dest cf).
  Proof.
    intros w pre P. unfold PInv in P. destruct (w_ph w).
    - destruct P as [Hl _]. unfold ncalls. rewrite Hl. cbn. destruct (c_dest cf); cbn; lia.
    - destruct P as (Hd & _ & Hn & _). rewrite Hd, Hn. cbn. lia.
    - destruct P as (Hd & _ & Hn & _). rewrite Hd, Hn. cbn. lia.
    - destruct P as (_ & P). destruct (c_dest cf).
      + destruct P as (_ & Hn & _). rewrite Hn. cbn. lia.
      + destruct P as (_ & Hn & _). rewrite Hn. cbn. lia.
    - destruct P as (_ & Hn & _). rewrite Hn. lia.
    - destruct P as (_ & _ & Hn). exact Hn.
    - contradiction.
  Qed.
End Run.

(* ---------------------------------------------------------------- the theorems *)
Lemma bus_history_parts : forall cf h, bus_history cf h = true ->
  stamped h = true /\ existsb (driver_claim_off_path cf) h = false /\
  (c_dest cf = DWell -> owners_ok_from 0 h = true) /\ (c_dest cf = DWell -> consistent_from 0 None h = true).
Proof.
  intros cf h Hb. unfold bus_history in Hb. apply andb_true_iff in Hb. destruct Hb as [Hb Hd].
  apply andb_true_iff in Hb. destruct Hb as [Hst Hdc]. apply negb_true_iff in Hdc.
  split; [exact Hst|]. split; [exact Hdc|].
  split; intro E; rewrite E in Hd; apply andb_true_iff in Hd; tauto.
Qed.

Lemma run_winv : forall cf h sched, bus_history cf h = true -> WInv cf h (run cf h sched).
Proof.
  intros cf h sched Hb. destruct (bus_history_parts cf h Hb) as (Hst & Hdc & Hown & Hcon).
  apply (run_inv cf h Hst Hdc Hown Hcon). apply init_inv; assumption.
Qed.

Theorem owner_full : forall cf h sched,
  bus_history cf h = true ->
  let w := run cf h sched in
  (exists rest, spec_yield cf (w_start w) h = yielded w ++ rest) /\
  (w_todo w = [] -> drained w -> yielded w = spec_yield cf (w_start w) h).
Proof.
  intros cf h sched Hb w. pose proof (run_winv cf h sched Hb) as Hi. split.
  - exact (inv_prefix cf h w Hi).
  - intros Ht Hd. exact (inv_complete cf h w Hi Ht Hd).
Qed.

(* whenever the consumer polls a stream that has something for it, it gets the next item the specification
   lists: a poll that comes back empty-handed means everything received so far has been yielded *)
Theorem poll_pending_complete : forall cf h sched,
  bus_history cf h = true ->
  let w := run cf h sched in
  drained w ->
  yielded w = spec_yield cf (w_start w) (firstn (N.to_nat (w_seq w)) h).
Proof.
  intros cf h sched Hb w Hdr. destruct (run_winv cf h sched Hb) as (pre & B & P). fold w in B, P.
  unfold drained in Hdr. unfold PInv in P. unfold yielded.
  destruct (w_ph w) as [| | | |st| |]; try contradiction.
  destruct P as (_ & _ & (Hwf & Hso & _) & _ & _ & Hy & _). destruct Hdr as [st' Hp].
  destruct (ss_poll_spec (ss_fuel st) st None Hwf Hso (ss_fuel_ok st)) as (r & st2 & Ep & _ & Hps & _).
  rewrite Hp in Ep. inversion Ep; subst r st2. destruct Hps as (_ & H1 & _).
  rewrite H1 in Hy. cbn [map] in Hy. rewrite app_nil_r in Hy. rewrite Hy.
  pose proof (b_split _ _ _ _ _ _ _ B) as Hs. pose proof (b_len _ _ _ _ _ _ _ B) as Hlen.
  rewrite Hs, <- Hlen, Nnat.Nat2N.id, firstn_app, firstn_all, Nat.sub_diag. cbn [firstn]. rewrite app_nil_r.
  reflexivity.
Qed.

(* `.expect("`NameOwnerChanged` signal has no args")` in SignalStream::new is never reached *)
Theorem never_panics : forall cf h sched, bus_history cf h = true -> w_ph (run cf h sched) <> PhPanic.
Proof.
  intros cf h sched Hb. destruct (run_winv cf h sched Hb) as (pre & _ & P).
  unfold PInv in P. intro E. rewrite E in P. exact P.
Qed.
