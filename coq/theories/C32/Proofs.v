(* C32/Proofs.v — every run of the model (every schedule of socket reader, stream creation and consumer)
   yields a prefix of what C32/Spec.v demands, and all of it once everything has been read and polled —
   for bus histories, outside the two known classes. *)
From Coq Require Import List NArith Bool Lia.
Import ListNotations.
From ZV Require Import Base.Bytes C32.Model C32.Spec C32.Facts.
Local Open Scope N_scope.

(* ---------------------------------------------------------------- small facts *)
Lemma opt_eqb_eq : forall a b, opt_eqb a b = true <-> a = b.
Proof.
  intros [x|] [y|]; cbn; split; intro H; try discriminate; try reflexivity.
  - apply N.eqb_eq in H. subst. reflexivity.
  - inversion H. apply N.eqb_refl.
Qed.

Lemma opt_eqb_refl : forall a, opt_eqb a a = true.
Proof. intro a. apply opt_eqb_eq. reflexivity. Qed.

Lemma opt_eqb_neq : forall a b, opt_eqb a b = false <-> a <> b.
Proof.
  intros a b. split; intro H.
  - intro E. apply opt_eqb_eq in E. congruence.
  - destruct (opt_eqb a b) eqn:E; [|reflexivity]. apply opt_eqb_eq in E. contradiction.
Qed.

(* the NameOwnerChanged rule accepts exactly the driver's notifications for the name *)
Lemma noc_rule_driver : forall s,
  matches noc_rule s = true <-> exists new, driver_noc s = Some new.
Proof.
  intros [snd pa ifc mem bd]. unfold matches, noc_rule, driver_noc, arg0_is.
  cbn [r_sender r_path r_iface r_member r_arg0 s_sender s_path s_iface s_member s_body].
  destruct snd as [x|]; cbn [opt_eqb].
  - destruct (x =? DRIVER), (ifc =? I_DBUS), (mem =? M_NOC), (pa =? P_DRIVER); cbn [andb];
      try (split; [discriminate|intros [? ?]; discriminate]).
    destruct bd as [|nm old new| |]; try (split; [discriminate|intros [? ?]; discriminate]).
    destruct (nm =? NAME_W); split; try discriminate; try (intros [? ?]; discriminate); eauto.
  - cbn [andb]. split; [discriminate|intros [? ?]; discriminate].
Qed.

Lemma driver_noc_new : forall s new, driver_noc s = Some new -> noc_new s = Some new.
Proof.
  intros [snd pa ifc mem bd] new. unfold driver_noc, noc_new. cbn [s_sender s_path s_iface s_member s_body].
  destruct (opt_eqb snd (Some DRIVER) && (pa =? P_DRIVER) && (ifc =? I_DBUS) && (mem =? M_NOC)); [|discriminate].
  destruct bd as [|nm old nw| |]; try discriminate. destruct (nm =? NAME_W); [|discriminate]. congruence.
Qed.

Lemma driver_noc_shape : forall s new, driver_noc s = Some new ->
  s_sender s = Some DRIVER /\ s_path s = P_DRIVER /\ is_noc s = true /\ exists old, s_body s = BNoc NAME_W old new.
Proof.
  intros [snd pa ifc mem bd] new. unfold driver_noc, is_noc. cbn [s_sender s_path s_iface s_member s_body].
  destruct (opt_eqb snd (Some DRIVER)) eqn:E1; cbn [andb]; [|discriminate].
  destruct (pa =? P_DRIVER) eqn:E2; cbn [andb]; [|discriminate].
  destruct (ifc =? I_DBUS) eqn:E3; cbn [andb]; [|discriminate].
  destruct (mem =? M_NOC) eqn:E4; [|discriminate].
  destruct bd as [|nm old nw| |]; try discriminate. destruct (nm =? NAME_W) eqn:E5; [|discriminate].
  intro H. inversion H; subst. apply opt_eqb_eq in E1. apply N.eqb_eq in E2, E5. subst.
  repeat split; eauto.
Qed.

Lemma sig_rule_path : forall cf s, matches (sig_rule cf) s = true -> s_path s = P_OBJ.
Proof.
  intros cf s H. unfold matches, sig_rule, sig_rule_of in H. cbn [r_path] in H.
  repeat (apply andb_true_iff in H; destruct H as [H ?]). apply N.eqb_eq. assumption.
Qed.

Lemma rules_exclusive : forall cf s, matches (sig_rule cf) s && matches noc_rule s = false.
Proof.
  intros cf s. destruct (matches (sig_rule cf) s) eqn:E1; [|reflexivity].
  destruct (matches noc_rule s) eqn:E2; [|reflexivity].
  apply sig_rule_path in E1. apply noc_rule_driver in E2. destruct E2 as [new E2].
  apply driver_noc_shape in E2. destruct E2 as (_ & Hp & _). rewrite E1 in Hp. discriminate.
Qed.

Lemma sig_rule_wanted : forall cf s,
  matches (sig_rule cf) s =
  wanted cf s && match c_dest cf with DUnique u => opt_eqb (s_sender s) (Some u) | DWell => true end.
Proof.
  intros [d pi pm] s. unfold matches, sig_rule, sig_rule_of, wanted.
  cbn [c_dest c_pi c_pm r_sender r_path r_iface r_member r_arg0].
  destruct d as [u|].
  - destruct (s_sender s) as [x|]; cbn [opt_eqb];
      destruct (s_iface s =? pi), (s_path s =? P_OBJ), (match pm with Some m => s_member s =? m | None => true end),
               (match s_sender s with Some x0 => x0 =? u | None => false end);
      try destruct (x =? u); reflexivity.
  - destruct (s_iface s =? pi), (s_path s =? P_OBJ), (match pm with Some m => s_member s =? m | None => true end);
      reflexivity.
Qed.

(* ---------------------------------------------------------------- PendingMethodCall *)
Definition no_reply (c : N) (q : queue (N * payload)) : Prop := Forall (fun e => fst (snd e) <> c) q.

Lemma pmc_no_reply : forall c q, no_reply c q -> pmc_poll c q None = (RPending, []).
Proof.
  induction q as [|[t [k p]] q IH]; intro H; [reflexivity|].
  inversion H as [|? ? Hk Hq]; subst. cbn in Hk. cbn [pmc_poll].
  destruct (k =? c) eqn:E; [apply N.eqb_eq in E; contradiction|]. apply IH. assumption.
Qed.

Lemma pmc_has_reply : forall c stale t p, no_reply c stale ->
  exists q', pmc_poll c (stale ++ [(t, (c, p))]) None = (RItem p t, q').
Proof.
  induction stale as [|[t1 [k p1]] q IH]; intros t p H.
  - cbn. rewrite N.eqb_refl. eauto.
  - inversion H as [|? ? Hk Hq]; subst. cbn in Hk. cbn [app pmc_poll].
    destruct (k =? c) eqn:E; [apply N.eqb_eq in E; contradiction|]. apply IH. assumption.
Qed.

(* reps replies have been read; the call number c is awaited *)
Definition qrep (c reps : N) (qr : queue (N * payload)) : Prop :=
  (reps < c /\ no_reply c qr /\ Forall (fun e => fst (snd e) <= reps) qr) \/
  (reps = c /\ exists stale t p, qr = stale ++ [(t, (c, p))] /\ no_reply c stale).

Lemma qrep_push_other : forall c reps qr t p, reps + 1 < c -> qrep c reps qr -> qrep c (reps + 1) (push qr t (reps + 1, p)).
Proof.
  intros c reps qr t p Hlt [(H1 & H2 & H3)|(H1 & _)]; [|lia].
  left. split; [lia|]. unfold push. split.
  - apply Forall_app. split; [exact H2|]. constructor; [cbn; lia|constructor].
  - apply Forall_app. split; [eapply Forall_impl; [|exact H3]; cbn; intros; lia|]. constructor; [cbn; lia|constructor].
Qed.

Lemma qrep_push_mine : forall c reps qr t p, reps + 1 = c -> qrep c reps qr -> qrep c (reps + 1) (push qr t (reps + 1, p)).
Proof.
  intros c reps qr t p He [(H1 & H2 & H3)|(H1 & _)]; [|lia].
  right. split; [exact He|]. exists qr, t, p. rewrite He. split; [reflexivity|exact H2].
Qed.

(* ---------------------------------------------------------------- NameOwnerChanged queues *)
Definition nstep (s : option N) (e : N * sigm) : option N :=
  match noc_new (snd e) with Some new => new | None => s end.
Definition nend (src : option N) (q : queue sigm) : option N := fold_left nstep q src.

Definition noc_good (e : N * sigm) : Prop :=
  exists new, driver_noc (snd e) = Some new /\ not_driver new = true.
Definition qn_good (q : queue sigm) : Prop := Forall noc_good q.

Lemma nend_app : forall src q1 q2, nend src (q1 ++ q2) = nend (nend src q1) q2.
Proof. intros. unfold nend. apply fold_left_app. Qed.

Lemma nend_nonempty : forall q s1 s2, qn_good q -> q <> [] -> nend s1 q = nend s2 q.
Proof.
  induction q as [|e q IH]; intros s1 s2 Hg Hne; [contradiction|].
  inversion Hg as [|? ? He Hq]; subst. destruct He as (new & Hd & _).
  unfold nend. cbn [fold_left]. unfold nstep at 2 4. rewrite (driver_noc_new _ _ Hd). reflexivity.
Qed.

Lemma nend_not_driver : forall q src, qn_good q -> not_driver src = true -> not_driver (nend src q) = true.
Proof.
  induction q as [|e q IH]; intros src Hg Hs; [exact Hs|].
  inversion Hg as [|? ? He Hq]; subst. destruct He as (new & Hd & Hn).
  unfold nend. cbn [fold_left]. unfold nstep at 2. rewrite (driver_noc_new _ _ Hd). apply IH; assumption.
Qed.

(* the driver's notifications never pass the sender test and replace src_unique_name *)
Lemma filter_noc : forall src s new, driver_noc s = Some new -> not_driver src = true ->
  ss_filter src s = (false, new).
Proof.
  intros src s new Hd Hs. destruct (driver_noc_shape _ _ Hd) as (Hsnd & _ & Hn & old & Hb).
  unfold ss_filter. rewrite Hsnd, Hn, Hb.
  unfold not_driver in Hs. apply negb_true_iff in Hs.
  destruct (opt_eqb (Some DRIVER) src) eqn:E; [|reflexivity].
  apply opt_eqb_eq in E. subst. rewrite opt_eqb_refl in Hs. discriminate.
Qed.

Lemma frun_nocs : forall q src, qn_good q -> not_driver src = true -> frun src q = ([], nend src q).
Proof.
  induction q as [|[t m] q IH]; intros src Hg Hs; [reflexivity|].
  inversion Hg as [|? ? He Hq]; subst. destruct He as (new & Hd & Hn). cbn [snd] in Hd.
  cbn [frun]. rewrite (filter_noc _ _ _ Hd Hs). rewrite (IH new Hq Hn).
  change (nend src ((t, m) :: q)) with (nend (nstep src (t, m)) q).
  unfold nstep. cbn [snd app]. rewrite (driver_noc_new _ _ Hd). reflexivity.
Qed.

(* ---------------------------------------------------------------- the specification, prefix by prefix *)
Section Spec.
  Variable cf : cfg.

  Definition sp_run (l : list wmsg) : sst := fold_left (sp_step cf) l (sp_init cf).

  Lemma sp_run_snoc : forall l m, sp_run (l ++ [m]) = sp_step cf (sp_run l) m.
  Proof. intros. unfold sp_run. rewrite fold_left_app. reflexivity. Qed.

  Lemma spec_from_app : forall start l1 l2 st idx,
    spec_from cf start st idx (l1 ++ l2) =
    spec_from cf start st idx l1 ++
    spec_from cf start (fold_left (sp_step cf) l1 st) (idx + N.of_nat (length l1)) l2.
  Proof.
    induction l1 as [|m l1 IH]; intros l2 st idx.
    - cbn [app spec_from fold_left length]. rewrite N.add_0_r. reflexivity.
    - cbn [app spec_from fold_left length]. rewrite IH, <- app_assoc. do 3 f_equal. lia.
  Qed.

  Lemma spec_from_early : forall start l st idx,
    idx + N.of_nat (length l) <= start + 1 -> spec_from cf start st idx l = [].
  Proof.
    induction l as [|m l IH]; intros st idx H; [reflexivity|].
    cbn [spec_from]. cbn [length] in H. rewrite IH by lia.
    destruct m as [s|p]; [|reflexivity].
    destruct (start <? idx) eqn:E; [apply N.ltb_lt in E; lia|].
    rewrite andb_false_r. reflexivity.
  Qed.

  Definition spec_pre (start : N) (pre : list wmsg) : list N := spec_from cf start (sp_init cf) 1 pre.

  Lemma spec_pre_snoc : forall start pre m,
    spec_pre start (pre ++ [m]) =
    spec_pre start pre ++
    match m with
    | WSig s => if wanted cf s && (start <? 1 + N.of_nat (length pre)) && from_owner (sp_run pre) s
                then [1 + N.of_nat (length pre)] else []
    | WRep _ => []
    end.
  Proof.
    intros. unfold spec_pre. rewrite spec_from_app. f_equal. cbn [spec_from]. rewrite app_nil_r. reflexivity.
  Qed.

  (* yields so far are a prefix of all yields *)
  Lemma spec_pre_prefix : forall start pre post,
    exists rest, spec_yield cf start (pre ++ post) = spec_pre start pre ++ rest.
  Proof. intros. unfold spec_yield, spec_pre. rewrite spec_from_app. eauto. Qed.

  Lemma sp_rep_snoc_sig : forall st s, sp_rep (sp_step cf st (WSig s)) = sp_rep st.
  Proof.
    intros st s. unfold sp_step. destruct (c_dest cf); [reflexivity|].
    destruct (driver_noc s); [|reflexivity]. destruct (LOOKUP <=? sp_rep st); reflexivity.
  Qed.

  Lemma sp_rep_snoc_rep : forall st p, sp_rep (sp_step cf st (WRep p)) = sp_rep st + 1.
  Proof. intros st p. unfold sp_step. destruct (c_dest cf); reflexivity. Qed.

  Lemma sp_owner_unique : forall u l, c_dest cf = DUnique u -> sp_owner (sp_run l) = Some u.
  Proof.
    intros u l Hd. unfold sp_run, sp_init. rewrite Hd.
    assert (G : forall st, sp_owner st = Some u -> sp_owner (fold_left (sp_step cf) l st) = Some u).
    { induction l as [|m l IH]; intros st Hs; [exact Hs|]. cbn [fold_left]. apply IH.
      unfold sp_step. rewrite Hd. destruct m; assumption. }
    apply G. reflexivity.
  Qed.
End Spec.

(* ---------------------------------------------------------------- the hypotheses about the history, step by step *)
(* the accumulator of consistent_from after a prefix: the owner named by the last notification since reply 1 *)
Definition cstep (a : N * option (option N)) (m : wmsg) : N * option (option N) :=
  match m with
  | WRep _ => (fst a + 1, None)
  | WSig s => match driver_noc s with
              | Some new => (fst a, if 1 <=? fst a then Some new else None)
              | None => a
              end
  end.
Definition cacc (pre : list wmsg) : N * option (option N) := fold_left cstep pre (0, None).

Lemma cacc_snoc : forall pre m, cacc (pre ++ [m]) = cstep (cacc pre) m.
Proof. intros. unfold cacc. rewrite fold_left_app. reflexivity. Qed.

Lemma cstep_sig_fst : forall a s, fst (cstep a (WSig s)) = fst a.
Proof. intros a s. cbn [cstep]. destruct (driver_noc s); reflexivity. Qed.

Lemma consistent_step : forall nrep last m r,
  nrep < 2 -> consistent_from nrep last (m :: r) = true ->
  match m with
  | WRep p => if nrep + 1 =? LOOKUP
              then match last with Some o => lookup_result p = o | None => True end
              else consistent_from (fst (cstep (nrep, last) m)) (snd (cstep (nrep, last) m)) r = true
  | WSig _ => consistent_from (fst (cstep (nrep, last) m)) (snd (cstep (nrep, last) m)) r = true
  end.
Proof.
  intros nrep last m r Hlt H. destruct m as [s|p]; cbn [consistent_from cstep fst snd] in *.
  - destruct (driver_noc s); exact H.
  - destruct (nrep + 1 =? LOOKUP); [|exact H].
    destruct last as [o|]; [|exact I]. apply opt_eqb_eq. exact H.
Qed.

(* ---------------------------------------------------------------- the invariant *)
Definition creation (d : dest) : N := match d with DWell => 3 | DUnique _ => 1 end.

Section Run.
  Variable cf : cfg.
  Variable h : list wmsg.
  Hypothesis Hst : stamped h = true.
  Hypothesis Hfg : forgeable cf h = false.
  Hypothesis Hown : c_dest cf = DWell -> owners_ok_from 0 h = true.
  Hypothesis Hcon : c_dest cf = DWell -> consistent_from 0 None h = true.

  (* what is known after the prefix [pre] has been read: [todo] is the rest, [reps] replies were in [pre] *)
  Record Base (todo : list wmsg) (seq reps nc : N) (pre : list wmsg) : Prop := {
    b_split : h = pre ++ todo;
    b_len : N.of_nat (length pre) = seq;
    b_reps : sp_rep (sp_run cf pre) = reps;
    b_calls : reps <= nc;
    b_own : c_dest cf = DWell -> owners_ok_from reps todo = true;
    b_con : c_dest cf = DWell -> reps < 2 ->
            fst (cacc pre) = reps /\ consistent_from reps (snd (cacc pre)) todo = true;
    b_nd : c_dest cf = DWell -> not_driver (sp_owner (sp_run cf pre)) = true
  }.

  Lemma Base_init : Base h 0 0 0 [].
  Proof.
    constructor; try reflexivity; try lia; auto.
    intro Hd. unfold sp_run, sp_init. cbn [fold_left]. rewrite Hd. reflexivity.
  Qed.

  Lemma Base_calls : forall todo seq reps nc nc' pre, nc <= nc' -> Base todo seq reps nc pre -> Base todo seq reps nc' pre.
  Proof. intros ? ? ? ? ? ? Hle [? ? ? ? ? ? ?]. constructor; auto. lia. Qed.

  Lemma Base_sig : forall s rest seq reps nc pre,
    Base (WSig s :: rest) seq reps nc pre -> Base rest (seq + 1) reps nc (pre ++ [WSig s]).
  Proof.
    intros s rest seq reps nc pre [Hs Hl Hr Hc Ho Hk Hn]. constructor.
    - rewrite <- app_assoc. exact Hs.
    - rewrite app_length. cbn [length]. lia.
    - rewrite sp_run_snoc, sp_rep_snoc_sig. exact Hr.
    - exact Hc.
    - intro Hd. specialize (Ho Hd). cbn [owners_ok_from] in Ho. apply andb_true_iff in Ho. tauto.
    - intros Hd Hlt. destruct (Hk Hd Hlt) as [Hf Hcs]. rewrite cacc_snoc.
      pose proof (consistent_step reps (snd (cacc pre)) (WSig s) rest Hlt Hcs) as Hx. cbn beta iota in Hx.
      replace (cacc pre) with (reps, snd (cacc pre)) by (destruct (cacc pre); cbn in *; congruence).
      rewrite cstep_sig_fst in Hx. rewrite cstep_sig_fst. cbn [fst] in *. split; [reflexivity|exact Hx].
    - intro Hd. rewrite sp_run_snoc. unfold sp_step. rewrite Hd.
      destruct (driver_noc s) as [new|] eqn:E; [|exact (Hn Hd)].
      destruct (LOOKUP <=? sp_rep (sp_run cf pre)); [|exact (Hn Hd)]. cbn [sp_owner].
      specialize (Ho Hd). cbn [owners_ok_from] in Ho. rewrite E in Ho. apply andb_true_iff in Ho. tauto.
  Qed.

  Lemma Base_rep : forall p rest seq reps nc pre,
    reps < nc ->
    Base (WRep p :: rest) seq reps nc pre -> Base rest (seq + 1) (reps + 1) nc (pre ++ [WRep p]).
  Proof.
    intros p rest seq reps nc pre Hlt [Hs Hl Hr Hc Ho Hk Hn]. constructor.
    - rewrite <- app_assoc. exact Hs.
    - rewrite app_length. cbn [length]. lia.
    - rewrite sp_run_snoc, sp_rep_snoc_rep. lia.
    - lia.
    - intro Hd. specialize (Ho Hd). cbn [owners_ok_from] in Ho. apply andb_true_iff in Ho. tauto.
    - intros Hd Hlt2. assert (Hlt1 : reps < 2) by lia. destruct (Hk Hd Hlt1) as [Hf Hcs]. rewrite cacc_snoc.
      pose proof (consistent_step reps (snd (cacc pre)) (WRep p) rest Hlt1 Hcs) as Hx. cbn beta iota in Hx.
      replace (cacc pre) with (reps, snd (cacc pre)) by (destruct (cacc pre); cbn in *; congruence).
      destruct (reps + 1 =? LOOKUP) eqn:E; [apply N.eqb_eq in E; unfold LOOKUP in E; lia|].
      split; [reflexivity|exact Hx].
    - intro Hd. rewrite sp_run_snoc. unfold sp_step. rewrite Hd. cbn [sp_owner].
      destruct (sp_rep (sp_run cf pre) + 1 =? LOOKUP) eqn:E; [|exact (Hn Hd)].
      specialize (Ho Hd). cbn [owners_ok_from] in Ho. rewrite <- Hr in Ho. rewrite E in Ho.
      apply andb_true_iff in Ho. tauto.
  Qed.

  (* every message of the history is stamped and cannot be taken for an ownership claim by the signal rule *)
  Lemma in_hist : forall todo seq reps nc pre s rest,
    Base todo seq reps nc pre -> todo = WSig s :: rest ->
    s_sender s <> None /\ (wanted cf s = true -> is_noc s = false).
  Proof.
    intros todo seq reps nc pre s rest B E. destruct B as [Hs _ _ _ _ _ _]. subst todo.
    assert (Hin : In (WSig s) h) by (rewrite Hs; apply in_or_app; right; left; reflexivity).
    split.
    - unfold stamped in Hst. rewrite forallb_forall in Hst. specialize (Hst _ Hin). cbn in Hst.
      destruct (s_sender s); [discriminate|discriminate].
    - intro Hw. destruct (is_noc s) eqn:En; [|reflexivity].
      assert (Hx : forgeable cf h = true).
      { unfold forgeable. apply existsb_exists. exists (WSig s). split; [exact Hin|]. rewrite Hw, En. reflexivity. }
      congruence.
  Qed.

  (* ---- what is known in each phase *)
  Definition PInv (w : world) (pre : list wmsg) : Prop :=
    let sg := sp_run cf pre in
    match w_ph w with
    | PhFailed | PhPanic => w_out w = []
    | PhStart => w_log w = [] /\ w_out w = []
    | PhAddN c qr => c_dest cf = DWell /\ c = 1 /\ ncalls w = 1 /\ w_out w = [] /\ qrep 1 (w_reps w) qr
    | PhOwner c j qn fut =>
        c_dest cf = DWell /\ c = 2 /\ ncalls w = 2 /\ j = JNone /\ w_out w = [] /\
        qn_good qn /\ sorted qn /\ all_le (w_seq w) qn /\
        ((w_reps w = 1 /\ fut = Some [] /\ (qn = [] \/ snd (cacc pre) = Some (nend None qn))) \/
         (w_reps w = 2 /\ exists tr p qb qa,
             fut = Some [(tr, (2, p))] /\ qn = qb ++ qa /\ all_lt tr qb /\ all_gt tr qa /\
             (qb = [] \/ lookup_result p = nend None qb) /\
             sp_owner sg = nend (lookup_result p) qa /\ tr <= w_seq w))
    | PhAddS c src qn qr =>
        w_out w = [] /\
        match c_dest cf with
        | DWell =>
            c = 3 /\ ncalls w = 3 /\ not_driver src = true /\ qrep 3 (w_reps w) qr /\ 1 <= w_reps w /\
            exists q, qn = Some q /\ qn_good q /\ sorted q /\ all_le (w_seq w) q /\
                      ((w_reps w = 1 /\ snd (cacc pre) = Some (nend src q)) \/
                       (2 <= w_reps w /\ sp_owner sg = nend src q))
        | DUnique u => c = 1 /\ ncalls w = 1 /\ qn = None /\ src = Some u /\ qrep 1 (w_reps w) qr
        end
    | PhReady st =>
        w_reps w = ncalls w /\ ncalls w = creation (c_dest cf) /\ ss_ok (w_seq w) st /\ w_start w <= w_seq w /\
        (match c_dest cf with DWell => ss_qn st <> None | DUnique _ => ss_qn st = None end) /\
        rev (w_out w) ++ map fst (ss_pend st) = spec_pre cf (w_start w) pre /\
        ss_end st = sp_owner sg
    end.

  Definition WInv (w : world) : Prop :=
    exists pre, Base (w_todo w) (w_seq w) (w_reps w) (ncalls w) pre /\ PInv w pre.

  (* ---- delivery of a signal to the queue of the NameOwnerChanged receiver *)
  Lemma noc_push : forall n s q,
    qn_good q -> sorted q -> all_le n q ->
    (c_dest cf = DWell -> forall new, driver_noc s = Some new -> not_driver new = true) -> c_dest cf = DWell ->
    let q' := if matches noc_rule s then push q (n + 1) s else q in
    qn_good q' /\ sorted q' /\ all_le (n + 1) q' /\
    (forall src, nend src q' = match driver_noc s with Some new => new | None => nend src q end) /\
    (matches noc_rule s = false -> driver_noc s = None).
  Proof.
    intros n s q Hg Hso Hle Hnd Hd q'. subst q'.
    destruct (matches noc_rule s) eqn:E.
    - apply noc_rule_driver in E. destruct E as [new E]. rewrite E.
      split; [|split; [|split; [|split]]].
      + unfold push. apply Forall_app. split; [exact Hg|]. constructor; [|constructor].
        exists new. split; [exact E|]. apply Hnd; assumption.
      + unfold push. apply sorted_app_one; [exact Hso|]. eapply all_le_mono; [|exact Hle]. lia.
      + apply all_le_push. exact Hle.
      + intro src. unfold push. rewrite nend_app. unfold nend. cbn [fold_left]. unfold nstep. cbn [snd].
        rewrite (driver_noc_new _ _ E). reflexivity.
      + discriminate.
    - assert (Hn : driver_noc s = None).
      { destruct (driver_noc s) as [new|] eqn:E2; [|reflexivity].
        assert (matches noc_rule s = true) by (apply noc_rule_driver; eauto). congruence. }
      rewrite Hn. repeat split; auto. eapply all_le_mono; [|exact Hle]. lia.
  Qed.
End Run.
