(* C32/Facts.v — the ordered join and the SignalStream loop, characterised by the merged list of unread items. *)
From Coq Require Import List NArith Bool Lia.
Import ListNotations.
From ZV Require Import Base.Bytes C32.Model.
Local Open Scope N_scope.

(* ---------------------------------------------------------------- merge of two queues, ties: left first *)
Fixpoint merge {A} (l1 : queue A) : queue A -> queue A :=
  match l1 with
  | [] => fun l2 => l2
  | (t1, a1) :: r1 =>
      fix inner (l2 : queue A) : queue A :=
        match l2 with
        | [] => l1
        | (t2, a2) :: r2 => if t1 <=? t2 then (t1, a1) :: merge r1 l2 else (t2, a2) :: inner r2
        end
  end.

Lemma merge_nil_r : forall A (l : queue A), merge l [] = l.
Proof. destruct l as [|[t a] l]; reflexivity. Qed.

Lemma merge_cons : forall A t1 (a1 : A) r1 t2 a2 r2,
  merge ((t1, a1) :: r1) ((t2, a2) :: r2) =
  if t1 <=? t2 then (t1, a1) :: merge r1 ((t2, a2) :: r2) else (t2, a2) :: merge ((t1, a1) :: r1) r2.
Proof. reflexivity. Qed.

Definition all_lt {A} (t : N) (q : queue A) : Prop := Forall (fun e => fst e < t) q.
Definition all_le {A} (t : N) (q : queue A) : Prop := Forall (fun e => fst e <= t) q.

Lemma all_lt_le : forall A t (q : queue A), all_lt t q -> all_le t q.
Proof. intros A t q H. eapply Forall_impl; [|exact H]. cbn. intros; lia. Qed.

Lemma all_le_lt_succ : forall A t (q : queue A), all_le t q -> all_lt (t + 1) q.
Proof. intros A t q H. eapply Forall_impl; [|exact H]. cbn. intros; lia. Qed.

Lemma all_le_mono : forall A t t' (q : queue A), t <= t' -> all_le t q -> all_le t' q.
Proof. intros A t t' q Ht H. eapply Forall_impl; [|exact H]. cbn. intros; lia. Qed.

Lemma all_le_push : forall A t (q : queue A) a, all_le t q -> all_le (t + 1) (push q (t + 1) a).
Proof.
  intros A t q a H. unfold push, all_le. apply Forall_app. split.
  - eapply Forall_impl; [|exact H]. cbn. intros; lia.
  - constructor; [cbn; lia|constructor].
Qed.

(* a newer item appended to the right queue lands at the end *)
Lemma merge_push_r : forall A (l1 l2 : queue A) t a,
  all_le t l1 -> merge l1 (l2 ++ [(t, a)]) = merge l1 l2 ++ [(t, a)].
Proof.
  induction l1 as [|[t1 a1] r1 IH]; intros l2 t a H1.
  - reflexivity.
  - induction l2 as [|[t2 a2] r2 IH2].
    + cbn [app]. rewrite merge_cons, merge_nil_r.
      inversion H1 as [|? ? Hh Ht]; subst. cbn in Hh.
      destruct (t1 <=? t) eqn:E; [|apply N.leb_gt in E; lia].
      cbn [app]. f_equal.
      specialize (IH [] t a Ht). cbn [app] in IH. rewrite IH, merge_nil_r. reflexivity.
    + cbn [app]. rewrite !merge_cons. destruct (t1 <=? t2).
      * cbn [app]. f_equal. inversion H1; subst. rewrite app_comm_cons. apply IH. assumption.
      * cbn [app]. f_equal. apply IH2.
Qed.

(* a strictly newer item appended to the left queue lands at the end *)
Lemma merge_push_l : forall A (l1 l2 : queue A) t a,
  all_lt t l2 -> merge (l1 ++ [(t, a)]) l2 = merge l1 l2 ++ [(t, a)].
Proof.
  induction l1 as [|[t1 a1] r1 IH]; intros l2 t a H2.
  - cbn [app]. induction l2 as [|[t2 a2] r2 IH2].
    + reflexivity.
    + rewrite merge_cons. inversion H2 as [|? ? Hh Ht]; subst. cbn in Hh.
      destruct (t <=? t2) eqn:E; [apply N.leb_le in E; lia|].
      cbn [merge app]. f_equal. apply IH2. assumption.
  - induction l2 as [|[t2 a2] r2 IH2].
    + rewrite !merge_nil_r. reflexivity.
    + rewrite <- app_comm_cons, !merge_cons. destruct (t1 <=? t2).
      * cbn [app]. f_equal. apply IH. assumption.
      * cbn [app]. f_equal. rewrite app_comm_cons. apply IH2. inversion H2; assumption.
Qed.

Lemma merge_all_le : forall A t (l1 l2 : queue A), all_le t l1 -> all_le t l2 -> all_le t (merge l1 l2).
Proof.
  induction l1 as [|[t1 a1] r1 IH]; intros l2 H1 H2; [exact H2|].
  induction l2 as [|[t2 a2] r2 IH2]; [rewrite merge_nil_r; exact H1|].
  rewrite merge_cons. inversion H1; inversion H2; subst. destruct (t1 <=? t2).
  - constructor; [assumption|]. apply IH; assumption.
  - constructor; [assumption|]. apply IH2. assumption.
Qed.

Lemma merge_length : forall A (l1 l2 : queue A), length (merge l1 l2) = (length l1 + length l2)%nat.
Proof.
  induction l1 as [|[t1 a1] r1 IH]; intros l2; [reflexivity|].
  induction l2 as [|[t2 a2] r2 IH2]; [rewrite merge_nil_r; cbn; lia|].
  rewrite merge_cons. destruct (t1 <=? t2); cbn [length].
  - rewrite IH. cbn [length]. lia.
  - rewrite IH2. cbn [length]. lia.
Qed.

(* ---------------------------------------------------------------- what a poll does to the list of unread items *)
Definition pspec {I} (pend pend' : queue I) (before : option N) (r : pres I) : Prop :=
  match r with
  | RItem i t => pend = (t, i) :: pend'
  | RPending => before = None /\ pend = [] /\ pend' = []
  | RNoneBefore => pend' = pend /\ exists b, before = Some b /\ (forall t i l, pend = (t, i) :: l -> b < t)
  | RTerm => False
  end.

(* ---------------------------------------------------------------- the SignalStream's inner join *)
Definition bufA {I} (j : jstate I) : queue I := match j with JA a t => [(t, a)] | _ => [] end.
Definition bufB {I} (j : jstate I) : queue I := match j with JB b t => [(t, b)] | _ => [] end.
Definition oq {A} (q : option (queue A)) : queue A := match q with Some l => l | None => [] end.

Definition ss_merged (st : sstream) : queue sigm :=
  merge (bufA (ss_j st) ++ ss_qs st) (bufB (ss_j st) ++ oq (ss_qn st)).

(* states the join can be in *)
Definition jwf (st : sstream) : Prop :=
  match ss_qn st with
  | None => ss_j st = JNone \/ ss_j st = JOnlyA
  | Some _ => match ss_j st with JNone | JA _ _ | JB _ _ => True | _ => False end
  end.

Definition mk_ss (j : jstate sigm) qs qn src : sstream := {| ss_j := j; ss_qs := qs; ss_qn := qn; ss_src := src |}.

Lemma ss_join_spec : forall st before r j' qs' qn',
  jwf st -> ss_join st before = (r, j', qs', qn') ->
  jwf (mk_ss j' qs' qn' (ss_src st)) /\
  pspec (ss_merged st) (ss_merged (mk_ss j' qs' qn' (ss_src st))) before r.
Proof.
  intros [j qs qn src] before r j' qs' qn' Hwf H.
  unfold ss_join, jwf, ss_merged in *. cbn [ss_j ss_qs ss_qn ss_src mk_ss] in *.
  destruct qn as [qn|].
  - (* both streams *)
    destruct j as [|a ta|b tb| | |]; try contradiction;
      destruct qs as [|[t1 m1] qs]; destruct qn as [|[t2 m2] qn]; destruct before as [bf|];
      cbn in H;
      repeat match type of H with
             | context [if ?c then _ else _] => destruct c eqn:?
             end;
      inversion H; subst; clear H; cbn [bufA bufB oq app pspec jwf ss_qn ss_j mk_ss];
      rewrite ?merge_nil_r, ?merge_cons;
      repeat match goal with
             | Hc : (?x <=? ?y) = _ |- context [?x <=? ?y] => rewrite Hc
             end;
      try (split; [exact I|]);
      try reflexivity;
      try (split; [reflexivity|]; eexists; split; [reflexivity|]; intros t i l Hl; inversion Hl; subst;
           repeat match goal with
                  | Hc : (_ <? _) = true |- _ => apply N.ltb_lt in Hc
                  | Hc : (_ <? _) = false |- _ => apply N.ltb_ge in Hc
                  | Hc : (_ <=? _) = true |- _ => apply N.leb_le in Hc
                  | Hc : (_ <=? _) = false |- _ => apply N.leb_gt in Hc
                  end; lia);
      try (repeat split; reflexivity);
      try (split; [reflexivity|]; eexists; split; [reflexivity|]; intros t i l Hl; discriminate Hl).
  - (* no NameOwnerChanged stream: B is terminated *)
    destruct Hwf as [-> | ->];
      destruct qs as [|[t1 m1] qs]; destruct before as [bf|]; cbn in H;
      repeat match type of H with
             | context [if ?c then _ else _] => destruct c eqn:?
             end;
      inversion H; subst; clear H;
      cbn [bufA bufB oq app pspec jwf ss_qn ss_j mk_ss]; rewrite ?merge_nil_r;
      (split; [right; reflexivity|]);
      try reflexivity;
      try (repeat split; reflexivity);
      try (split; [reflexivity|]; eexists; split; [reflexivity|]; intros t i l Hl; discriminate Hl).
Qed.

(* ---------------------------------------------------------------- more on merge: bounds, order *)
Lemma merge_all_le_inv : forall A t (l1 l2 : queue A), all_le t (merge l1 l2) -> all_le t l1 /\ all_le t l2.
Proof.
  induction l1 as [|[t1 a1] r1 IH]; intros l2 H; [split; [constructor|exact H]|].
  induction l2 as [|[t2 a2] r2 IH2]; [rewrite merge_nil_r in H; split; [exact H|constructor]|].
  rewrite merge_cons in H. destruct (t1 <=? t2); inversion H as [|? ? Hh Ht]; subst.
  - destruct (IH _ Ht) as [H1 H2]. split; [constructor; assumption|assumption].
  - destruct (IH2 Ht) as [H1 H2]. split; [assumption|constructor; assumption].
Qed.

Definition all_gt {A} (b : N) (q : queue A) : Prop := Forall (fun e => b < fst e) q.
Definition all_ge {A} (b : N) (q : queue A) : Prop := Forall (fun e => b <= fst e) q.

Fixpoint sorted {A} (q : queue A) : Prop :=
  match q with
  | [] => True
  | (t, _) :: r => all_ge t r /\ sorted r
  end.

Lemma sorted_app_one : forall A (q : queue A) t a, sorted q -> all_le t q -> sorted (q ++ [(t, a)]).
Proof.
  induction q as [|[t1 a1] r IH]; intros t a Hs Hl; cbn [app sorted].
  - split; [constructor|exact I].
  - destruct Hs as [Hg Hs]. inversion Hl as [|? ? Hh Ht]; subst. cbn in Hh. split.
    + apply Forall_app. split; [exact Hg|]. constructor; [cbn; lia|constructor].
    + apply IH; assumption.
Qed.

Lemma sorted_head_gt : forall A (q : queue A) b,
  sorted q -> (forall t i l, q = (t, i) :: l -> b < t) -> all_gt b q.
Proof.
  intros A [|[t a] r] b Hs Hh; [constructor|].
  destruct Hs as [Hg _]. specialize (Hh t a r eq_refl). constructor; [cbn; lia|].
  eapply Forall_impl; [|exact Hg]. cbn. intros; lia.
Qed.

Lemma sorted_skipn : forall A k (q : queue A), sorted q -> sorted (skipn k q).
Proof.
  induction k as [|k IH]; intros q Hs; [exact Hs|].
  destruct q as [|[t a] r]; [exact I|]. cbn [skipn]. apply IH. exact (proj2 Hs).
Qed.

Lemma Forall_skipn : forall A (P : A -> Prop) k l, Forall P l -> Forall P (skipn k l).
Proof.
  induction k as [|k IH]; intros l H; [exact H|].
  destruct l; [constructor|]. cbn [skipn]. apply IH. inversion H; assumption.
Qed.

(* ---------------------------------------------------------------- the filter over the merged list *)
(* what repeated polling would yield, and src_unique_name after it *)
Fixpoint frun (src : option N) (l : queue sigm) : queue sigm * option N :=
  match l with
  | [] => ([], src)
  | (t, m) :: r =>
      let '(keep, src') := ss_filter src m in
      let '(ys, e) := frun src' r in
      ((if keep then [(t, m)] else []) ++ ys, e)
  end.

Definition ss_pend (st : sstream) : queue sigm := fst (frun (ss_src st) (ss_merged st)).
Definition ss_end (st : sstream) : option N := snd (frun (ss_src st) (ss_merged st)).

Lemma frun_Forall : forall (P : N * sigm -> Prop) l src, Forall P l -> Forall P (fst (frun src l)).
Proof.
  induction l as [|[t m] r IH]; intros src H; [constructor|].
  cbn [frun]. destruct (ss_filter src m) as [keep src'] eqn:E.
  specialize (IH src'). destruct (frun src' r) as [ys e]. cbn [fst] in *.
  inversion H; subst. destruct keep; cbn [app]; [constructor; [assumption|]|]; apply IH; assumption.
Qed.

Lemma frun_app_one : forall l src t m,
  frun src (l ++ [(t, m)]) =
  (fst (frun src l) ++ (if fst (ss_filter (snd (frun src l)) m) then [(t, m)] else []),
   snd (ss_filter (snd (frun src l)) m)).
Proof.
  induction l as [|[t1 m1] r IH]; intros src t m.
  - cbn [app frun fst snd]. destruct (ss_filter src m) as [keep s']. cbn. rewrite app_nil_r. reflexivity.
  - cbn [app frun]. destruct (ss_filter src m1) as [k1 s1]. rewrite IH.
    destruct (frun s1 r) as [ys e]. cbn [fst snd]. rewrite app_assoc. reflexivity.
Qed.

Definition ss_ok (n : N) (st : sstream) : Prop :=
  jwf st /\ sorted (ss_merged st) /\ all_le n (ss_merged st).

Lemma ss_poll_spec : forall fuel st before,
  jwf st -> sorted (ss_merged st) -> (length (ss_merged st) < fuel)%nat ->
  exists r st',
    ss_poll fuel st before = Some (r, st') /\ jwf st' /\
    pspec (ss_pend st) (ss_pend st') before r /\ ss_end st' = ss_end st /\
    (exists k, ss_merged st' = skipn k (ss_merged st)).
Proof.
  induction fuel as [|f IH]; intros st before Hwf Hs Hlen; [lia|].
  cbn [ss_poll]. destruct (ss_join st before) as [[[r j'] qs'] qn'] eqn:EJ.
  destruct (ss_join_spec _ _ _ _ _ _ Hwf EJ) as [Hwf' Hp].
  destruct r as [m t| | |]; cbn [pspec] in Hp.
  - (* an item: filter *)
    unfold ss_pend, ss_end. rewrite Hp. cbn [frun].
    destruct (ss_filter (ss_src st) m) as [keep src'] eqn:EF.
    set (st2 := {| ss_j := j'; ss_qs := qs'; ss_qn := qn'; ss_src := src' |}).
    assert (Hm2 : ss_merged st2 = ss_merged (mk_ss j' qs' qn' (ss_src st))) by reflexivity.
    assert (Hwf2 : jwf st2) by exact Hwf'.
    destruct keep.
    + exists (RItem m t), st2. split; [reflexivity|]. split; [exact Hwf2|].
      unfold ss_pend, ss_end. rewrite Hm2. cbn [ss_src st2].
      destruct (frun src' (ss_merged (mk_ss j' qs' qn' (ss_src st)))) as [ys e]. cbn [fst snd app pspec].
      split; [reflexivity|]. split; [reflexivity|]. exists 1%nat. reflexivity.
    + assert (Hs2 : sorted (ss_merged st2)). { rewrite Hm2. rewrite Hp in Hs. exact (proj2 Hs). }
      assert (Hl2 : (length (ss_merged st2) < f)%nat). { rewrite Hm2. rewrite Hp in Hlen. cbn [length] in Hlen. lia. }
      destruct (IH st2 before Hwf2 Hs2 Hl2) as (r & st' & E & Hw & Hps & He & k & Hk).
      exists r, st'. split; [exact E|]. split; [exact Hw|].
      unfold ss_pend, ss_end in *. rewrite Hm2 in *. cbn [ss_src st2] in *.
      destruct (frun src' (ss_merged (mk_ss j' qs' qn' (ss_src st)))) as [ys e]. cbn [fst snd app] in *.
      split; [exact Hps|]. split; [exact He|]. exists (S k). cbn [skipn]. exact Hk.
  - destruct Hp as (Hb & Hm & Hm').
    exists RPending, {| ss_j := j'; ss_qs := qs'; ss_qn := qn'; ss_src := ss_src st |}.
    split; [reflexivity|]. split; [exact Hwf'|]. unfold ss_pend, ss_end.
    change (ss_merged {| ss_j := j'; ss_qs := qs'; ss_qn := qn'; ss_src := ss_src st |})
      with (ss_merged (mk_ss j' qs' qn' (ss_src st))).
    rewrite Hm, Hm'. cbn. repeat split; try assumption. exists 0%nat. reflexivity.
  - destruct Hp as (Hm & b & Hb & Hh).
    exists RNoneBefore, {| ss_j := j'; ss_qs := qs'; ss_qn := qn'; ss_src := ss_src st |}.
    split; [reflexivity|]. split; [exact Hwf'|]. unfold ss_pend, ss_end.
    change (ss_merged {| ss_j := j'; ss_qs := qs'; ss_qn := qn'; ss_src := ss_src st |})
      with (ss_merged (mk_ss j' qs' qn' (ss_src st))).
    rewrite Hm. cbn [ss_src pspec]. split; [|split; [reflexivity|exists 0%nat; reflexivity]].
    split; [reflexivity|]. exists b. split; [exact Hb|].
    intros t i l Hl.
    pose proof (sorted_head_gt _ _ b Hs Hh) as Hg.
    pose proof (frun_Forall (fun e => b < fst e) _ (ss_src st) Hg) as Hf.
    rewrite Hl in Hf. inversion Hf; subst. assumption.
  - contradiction.
Qed.

Lemma ss_fuel_ok : forall st, (length (ss_merged st) < ss_fuel st)%nat.
Proof.
  intros [j qs qn src]. unfold ss_merged, ss_fuel. cbn [ss_j ss_qs ss_qn]. rewrite merge_length, !app_length.
  unfold qlen. destruct j; destruct qn; cbn [bufA bufB oq length]; lia.
Qed.

(* the total variant used inside an outer join (C31) *)
Lemma ss_poll_total : forall st before, jwf st -> sorted (ss_merged st) ->
  exists r st', ss_poll (ss_fuel st) st before = Some (r, st') /\ jwf st' /\
    pspec (ss_pend st) (ss_pend st') before r /\ ss_end st' = ss_end st /\
    (exists k, ss_merged st' = skipn k (ss_merged st)).
Proof. intros. apply ss_poll_spec; auto using ss_fuel_ok. Qed.

(* delivery appends to the merged list *)
Lemma ss_deliver_merged : forall r n s st,
  all_le n (ss_merged st) ->
  (matches r s && matches noc_rule s = false) ->
  ss_merged (ss_deliver r (n + 1) s st) =
  ss_merged st ++ (if matches r s || (match ss_qn st with Some _ => matches noc_rule s | None => false end)
                   then [(n + 1, s)] else []).
Proof.
  intros r n s [j qs qn src] Hle Hx. unfold ss_merged, ss_deliver in *. cbn [ss_j ss_qs ss_qn] in *.
  destruct (merge_all_le_inv _ _ _ _ Hle) as [H1 H2].
  destruct (matches r s) eqn:E1; cbn [orb].
  - cbn [andb] in Hx. rewrite Hx.
    assert (Hq : option_map (fun q : queue sigm => q) qn = qn) by (destruct qn; reflexivity).
    rewrite Hq. unfold push. rewrite app_assoc. apply merge_push_l. apply all_le_lt_succ. exact H2.
  - destruct qn as [qn|]; cbn [option_map oq].
    + destruct (matches noc_rule s).
      * unfold push. rewrite app_assoc. apply merge_push_r. eapply all_le_mono; [|exact H1]. lia.
      * rewrite app_nil_r. reflexivity.
    + cbn [oq]. rewrite !app_nil_r. reflexivity.
Qed.

(* polling never creates or removes the NameOwnerChanged receiver *)
Lemma ss_join_qn : forall st before r j' qs' qn',
  ss_join st before = (r, j', qs', qn') -> (qn' = None <-> ss_qn st = None).
Proof.
  intros [j qs qn src] before r j' qs' qn' H. unfold ss_join in H. cbn [ss_j ss_qs ss_qn] in *.
  destruct j as [|a ta|b tb| | |]; destruct qs as [|[t1 m1] qs]; destruct qn as [[|[t2 m2] qn]|];
    destruct before as [bf|]; cbn in H;
    repeat match type of H with
           | context [if ?c then _ else _] => destruct c eqn:?
           end;
    inversion H; subst; split; intro X; try discriminate X; reflexivity.
Qed.

Lemma ss_poll_qn : forall fuel st before r st',
  ss_poll fuel st before = Some (r, st') -> (ss_qn st' = None <-> ss_qn st = None).
Proof.
  induction fuel as [|f IH]; intros st before r st' H; [discriminate|].
  cbn [ss_poll] in H. destruct (ss_join st before) as [[[r0 j'] qs'] qn'] eqn:EJ.
  pose proof (ss_join_qn _ _ _ _ _ _ EJ) as Hq.
  destruct r0 as [m t| | |].
  - destruct (ss_filter (ss_src st) m) as [keep src'].
    destruct keep.
    + inversion H; subst. exact Hq.
    + apply IH in H. cbn [ss_qn] in H. tauto.
  - inversion H; subst. exact Hq.
  - inversion H; subst. exact Hq.
  - inversion H; subst. exact Hq.
Qed.
