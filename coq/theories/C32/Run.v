(* C32/Run.v — line driver.
   case:   S <dest> <pi> <pm> <script>          (syntax: C32/Parse.v, harness/hproxy/src/main.rs)
   model:  what harness/hproxy prints: per batch `<w|r|E>:<yielded event numbers | - | _>` joined by ';',
           then ` calls=<calls made>`; NOCALL when a reply has no call to answer; PANIC
   spec:   the same line computed from C32/Spec.v alone: the stream exists from the end of the batch that
           carries the last reply of its creation; what each polled batch yields is the part of
           [spec_yield] received up to that batch and not yielded before. `-` when the script is not a
           history a bus can produce (unstamped signals, inconsistent lookup, malformed replies)
   class:  - (no known deviation class is left after the fixes 902c9069 and 0bffda5d)                   *)
From Coq Require Import List NArith Bool.
Import ListNotations.
From ZV Require Import Base.Bytes C32.Model C32.Spec C32.Parse.
Local Open Scope N_scope.

(* ---- the harness' schedule: all messages of a batch, then every task until nothing moves, then the consumer *)
Definition SETTLE : nat := 8.

Fixpoint ticks (cf : cfg) (n : nat) (w : world) : option world :=
  match n with
  | O => Some w
  | S k => match tick cf w with Some w' => ticks cf k w' | None => None end
  end.

Definition settle (cf : cfg) (w : world) : world := fold_left (step cf) (repeat AClient SETTLE) w.
Definition drain (cf : cfg) (n : nat) (w : world) : world := fold_left (step cf) (repeat APoll n) w.

Definition status_tok (w : world) : bytes :=
  match w_ph w with
  | PhReady _ => B "r"
  | PhFailed => B "E"
  | _ => B "w"
  end.

Definition is_ready (w : world) : bool := match w_ph w with PhReady _ => true | _ => false end.

(* yields of this batch = what w_out gained *)
Definition gained (before after : list N) : list N :=
  rev (firstn (length after - length before) after).

Fixpoint run_batches (cf : cfg) (fuel : nat) (bs : list (bool * list wmsg)) (w : world)
  : option (list bytes * world) :=
  match bs with
  | [] => Some ([], w)
  | (pl, evs) :: r =>
      match ticks cf (length evs) w with
      | None => None
      | Some w1 =>
          let w2 := settle cf w1 in
          let w3 := if pl then drain cf fuel w2 else w2 in
          let ys := if pl && is_ready w2 then nums_text (gained (w_out w2) (w_out w3)) else B "_" in
          match run_batches cf fuel r w3 with
          | Some (toks, wf) => Some ((status_tok w2 ++ B ":" ++ ys) :: toks, wf)
          | None => None
          end
      end
  end.

Definition has_panic (w : world) : bool := match w_ph w with PhPanic => true | _ => false end.

Definition model_line (cf : cfg) (bs : list (bool * list wmsg)) : bytes * world :=
  let h := flat_map snd bs in
  let w0 := settle cf (init_world h) in
  match run_batches cf (S (S (length h))) bs w0 with
  | None => (B "NOCALL", w0)
  | Some (toks, w) =>
      if has_panic w then (B "PANIC", w)
      else (join (B ";") toks ++ B " calls=" ++ calls_text (w_log w), w)
  end.

(* ---- the specification's reading of the same script *)
(* replies the creation of the stream needs, and what they must look like *)
Definition creation_replies (d : dest) : N := match d with DWell => 3 | DUnique _ => 1 end.

Definition reply_ok (d : dest) (k : N) (p : payload) : bool :=
  match d with
  | DWell =>
      if k =? LOOKUP then match p with POwner _ | PErr => true | _ => false end
      else match p with PErr => false | _ => true end
  | DUnique _ => match p with PErr => false | _ => true end
  end.

Fixpoint replies_ok (d : dest) (k : N) (h : list wmsg) : bool :=
  match h with
  | [] => true
  | WRep p :: r => (if k + 1 <=? creation_replies d then reply_ok d (k + 1) p else false) && replies_ok d (k + 1) r
  | WSig _ :: r => replies_ok d k r
  end.

Definition count_reps (h : list wmsg) : N := N.of_nat (length (filter is_rep h)).

(* per batch: (status, yields) from the specification.  [seen] = events before this batch, [reps] = replies
   before it, [start] = Some n once the stream exists (n = events received when it was handed out),
   [given] = how many of spec_yield's items earlier polls returned *)
Fixpoint spec_batches (cf : cfg) (h : list wmsg) (bs : list (bool * list wmsg)) (seen reps : N)
         (start : option N) (given : nat) : list bytes :=
  match bs with
  | [] => []
  | (pl, evs) :: r =>
      let seen' := seen + N.of_nat (length evs) in
      let reps' := reps + count_reps evs in
      let start' := match start with
                    | Some s => Some s
                    | None => if creation_replies (c_dest cf) <=? reps' then Some seen' else None
                    end in
      match start' with
      | None => (B "w:_") :: spec_batches cf h r seen' reps' start' given
      | Some s =>
          let all := spec_yield cf s (firstn (N.to_nat seen') h) in
          if pl then (B "r:" ++ nums_text (skipn given all)) :: spec_batches cf h r seen' reps' start' (length all)
          else (B "r:_") :: spec_batches cf h r seen' reps' start' given
      end
  end.

(* the calls are not constrained by the property: props/C32.py compares up to " calls=" *)
Definition spec_line (cf : cfg) (bs : list (bool * list wmsg)) : bytes :=
  let h := flat_map snd bs in
  if bus_history cf h && replies_ok (c_dest cf) 0 h then join (B ";") (spec_batches cf h bs 0 0 None 0)
  else dash.

Definition run_case (line : bytes) : outp :=
  match words line with
  | [m; d; pi; pm; sc] =>
      if lbeq m (B "S") then
        match parse_dest d, one_digit 3 pi, parse_opt_member pm, parse_script sc with
        | Some dd, Some pii, Some pmm, Some bs0 =>
            let cf := {| c_dest := dd; c_pi := pii; c_pm := pmm |} in
            let bs := force_last_poll bs0 in
            let h := flat_map snd bs in
            let '(ml, w) := model_line cf bs in
            {| o_model := ml;
               o_spec := if lbeq ml (B "NOCALL") then dash else spec_line cf bs;
               o_class := dash |}
        | _, _, _, _ => bad_case
        end
      else bad_case
  | _ => bad_case
  end.

Definition run (line : bytes) : bytes := render (run_case line).
