(* C32/Model.v — executable mirror of the pieces of zbus that decide what a proxy's SignalStream yields,
   as they are.  No proofs in this file.

   Mirrored code:
     zbus/src/match_rule/mod.rs        MatchRule::matches          -> [matches] (for the rules this code builds)
     zbus/src/connection/socket_reader.rs  receive_msg             -> [tick] (one message, to every matching channel)
     zbus/src/message_stream.rs        MessageStream::poll_next_before -> [ms_poll]
     zbus/src/connection/mod.rs        PendingMethodCall::poll_before, add_match, call_method -> [pmc_poll], phases
     ordered-stream-0.2.0/src/join.rs  Join::poll_next_before, PollState::update, take_split -> [join_poll]
     ordered-stream adapters.rs        FromFuture, Option<S>       -> [fut_poll], [oms_poll]
     zbus/src/proxy/mod.rs             ProxyInner::subscribe_dest_owner_change, SignalStream::{new,filter,
                                       poll_next_before}            -> [client_step], [ss_filter], [ss_poll]

   The outside world is the wire history [list wmsg] (what the bus sends, in order) and the schedule
   [list action] (when the socket reader, the task creating the stream, and the consumer run).  A channel
   receiver (async-broadcast) is its queue of unread items, each with the sequence number the reader gave the
   message; capacities are not modelled (a full queue only delays the reader).                              *)
From Coq Require Import List NArith Bool.
Import ListNotations.
From ZV Require Import Base.Bytes.
Local Open Scope N_scope.

(* ---------------------------------------------------------------- identifiers (the harness' tables) *)
Definition DRIVER : N := 0.        (* org.freedesktop.DBus; k > 0 is the unique name :1.k *)
Definition P_OBJ : N := 0.         (* the proxy's object path *)
Definition P_DRIVER : N := 2.      (* /org/freedesktop/DBus *)
Definition I_PROPS : N := 2.       (* org.freedesktop.DBus.Properties *)
Definition I_DBUS : N := 3.        (* org.freedesktop.DBus *)
Definition M_PROPS : N := 2.       (* PropertiesChanged *)
Definition M_NOC : N := 3.         (* NameOwnerChanged *)
Definition NAME_W : N := 0.        (* the proxy's well-known destination *)

(* ---------------------------------------------------------------- wire messages *)
Inductive body :=
| BEmpty
| BNoc (nm : N) (old new : option N)                       (* (sss), "" = None *)
| BProps (ifc : N) (ch : list (N * N)) (inv : list N)       (* (sa{sv}as) *)
| BBad.                                                     (* (u) *)

Record sigm := { s_sender : option N; s_path : N; s_iface : N; s_member : N; s_body : body }.

Inductive payload := PPlain | POwner (o : N) | PSnap (l : list (N * N)) | PErr.

(* WRep answers the oldest call that has no reply yet *)
Inductive wmsg := WSig (s : sigm) | WRep (p : payload).

Inductive dest := DUnique (u : N) | DWell.
Record cfg := { c_dest : dest; c_pi : N; c_pm : option N }.

Definition opt_eqb (a b : option N) : bool :=
  match a, b with
  | Some x, Some y => x =? y
  | None, None => true
  | _, _ => false
  end.

(* ---------------------------------------------------------------- MatchRule::matches on a signal *)
Record rule := { r_sender : option N;      (* Some u: BusName::Unique(u) is compared; None: no sender in the rule, or a
                                              well-known one ("We can't match against a well-known name") *)
                 r_path : N; r_iface : N; r_member : option N; r_arg0 : option N }.

(* args: the body as a Structure, field 0 as &str, compared with the rule's string *)
Definition arg0_is (b : body) (nm : N) : bool :=
  match b with BNoc n _ _ => n =? nm | _ => false end.

Definition matches (r : rule) (s : sigm) : bool :=
  (match r_sender r with
   | Some u => match s_sender s with Some x => x =? u | None => false end
   | None => true
   end)
  && (s_iface s =? r_iface r)
  && (match r_member r with Some m => s_member s =? m | None => true end)
  && (s_path s =? r_path r)
  && (match r_arg0 r with Some nm => arg0_is (s_body s) nm | None => true end).

(* sender("org.freedesktop.DBus") parses as BusName::Unique, so it IS compared *)
Definition noc_rule : rule :=
  {| r_sender := Some DRIVER; r_path := P_DRIVER; r_iface := I_DBUS; r_member := Some M_NOC; r_arg0 := Some NAME_W |}.

Definition sig_rule_of (d : dest) (iface : N) (member : option N) : rule :=
  {| r_sender := match d with DUnique u => Some u | DWell => None end;
     r_path := P_OBJ; r_iface := iface; r_member := member; r_arg0 := None |}.
Definition sig_rule (cf : cfg) : rule := sig_rule_of (c_dest cf) (c_pi cf) (c_pm cf).

(* ---------------------------------------------------------------- channels and ordered streams *)
Definition queue (A : Type) := list (N * A).
Definition push {A} (q : queue A) (t : N) (a : A) : queue A := q ++ [(t, a)].

(* Poll<PollResult<Sequence, I>> *)
Inductive pres (I : Type) := RItem (i : I) (t : N) | RPending | RNoneBefore | RTerm.
Arguments RItem {I} i t.
Arguments RPending {I}.
Arguments RNoneBefore {I}.
Arguments RTerm {I}.

(* MessageStream::poll_next_before: an empty queue is NoneBefore when a bound is given *)
Definition ms_poll {A} (q : queue A) (before : option N) : pres A * queue A :=
  match q with
  | (t, i) :: q' => (RItem i t, q')
  | [] => (match before with Some _ => RNoneBefore | None => RPending end, [])
  end.

(* Option<MessageStream> *)
Definition oms_poll {A} (q : option (queue A)) (before : option N) : pres A * option (queue A) :=
  match q with
  | None => (RTerm, None)
  | Some q0 => let '(r, q1) := ms_poll q0 before in (r, Some q1)
  end.

(* PendingMethodCall::poll_before for the call number [c]: replies to other calls are skipped *)
Fixpoint pmc_poll (c : N) (q : queue (N * payload)) (before : option N) : pres payload * queue (N * payload) :=
  match q with
  | (t, (k, p)) :: q' => if k =? c then (RItem p t, q') else pmc_poll c q' before
  | [] => (match before with Some _ => RNoneBefore | None => RPending end, [])
  end.

(* FromFuture<PendingMethodCall>: None once it has produced its item *)
Definition fut_poll (c : N) (f : option (queue (N * payload))) (before : option N)
  : pres payload * option (queue (N * payload)) :=
  match f with
  | None => (RTerm, None)
  | Some q =>
      match pmc_poll c q before with
      | (RItem p t, _) => (RItem p t, None)
      | (r, q') => (r, Some q')
      end
  end.

Definition map_pres {A B} (f : A -> B) (r : pres A) : pres B :=
  match r with
  | RItem i t => RItem (f i) t
  | RPending => RPending
  | RNoneBefore => RNoneBefore
  | RTerm => RTerm
  end.

(* ---------------------------------------------------------------- ordered_stream::Join *)
Inductive jstate (I : Type) := JNone | JA (i : I) (t : N) | JB (i : I) (t : N) | JOnlyA | JOnlyB | JTerm.
Arguments JNone {I}.
Arguments JA {I} i t.
Arguments JB {I} i t.
Arguments JOnlyA {I}.
Arguments JOnlyB {I}.
Arguments JTerm {I}.

Section Join.
  Variables SA SB I : Type.
  Variable pollA : SA -> option N -> pres I * SA.
  Variable pollB : SB -> option N -> pres I * SB.

  (* JoinState::take_split; PollState = pres *)
  Definition take_split (j : jstate I) : pres I * pres I :=
    match j with
    | JNone => (RPending, RPending)
    | JA a t => (RItem a t, RPending)
    | JB b t => (RPending, RItem b t)
    | JOnlyA => (RPending, RTerm)
    | JOnlyB => (RTerm, RPending)
    | JTerm => (RTerm, RTerm)
    end.

  Definition ordering (p : pres I) : option N := match p with RItem _ t => Some t | _ => None end.
  Definition is_item (p : pres I) : bool := match p with RItem _ _ => true | _ => false end.

  (* PollState::update; returns (self', stream', "self is now an item") *)
  Definition update {S : Type} (poll : S -> option N -> pres I * S)
             (self : pres I) (s : S) (before other : option N) (retry : bool) : pres I * S * bool :=
    let run (o : option N) := let '(r, s') := poll s o in (r, s', is_item r) in
    match self with
    | RItem _ _ | RTerm => (self, s, false)
    | _ =>
        if (match self with RNoneBefore => retry | _ => false end) then (self, s, false)
        else
          match before, other with
          | Some u, Some o => if o <? u then run (Some o) else if retry then (self, s, false) else run (Some u)
          | Some t, None => run (Some t)
          | None, Some t => run (Some t)
          | None, None => run None
          end
    end.

  (* Join::poll_next_before *)
  Definition join_poll (j : jstate I) (sa : SA) (sb : SB) (before : option N)
    : pres I * jstate I * SA * SB :=
    let '(pa0, pb0) := take_split j in
    let '(pa1, sa1, _) := update pollA pa0 sa before (ordering pb0) false in
    let '(pb1, sb1, gotb) := update pollB pb0 sb before (ordering pa1) false in
    let '(pa2, sa2, _) :=
      if gotb then update pollA pa1 sa1 before (ordering pb1) true else (pa1, sa1, false) in
    match pa2, pb1 with
    | RItem a ta, RItem b tb =>
        if ta <=? tb then (RItem a ta, JB b tb, sa2, sb1) else (RItem b tb, JA a ta, sa2, sb1)
    | RTerm, RTerm => (RTerm, JTerm, sa2, sb1)
    | a, RTerm => (a, JOnlyA, sa2, sb1)
    | RTerm, b => (b, JOnlyB, sa2, sb1)
    | RItem a t, RPending => (RPending, JA a t, sa2, sb1)
    | RPending, RItem b t => (RPending, JB b t, sa2, sb1)
    | RPending, RPending => (RPending, JNone, sa2, sb1)
    | RPending, RNoneBefore => (RPending, JNone, sa2, sb1)
    | RNoneBefore, RPending => (RPending, JNone, sa2, sb1)
    | RNoneBefore, RNoneBefore => (RNoneBefore, JNone, sa2, sb1)
    | RItem a t, RNoneBefore =>
        match before with
        | Some b => if b <? t then (RNoneBefore, JA a t, sa2, sb1) else (RItem a t, JNone, sa2, sb1)
        | None => (RItem a t, JNone, sa2, sb1)
        end
    | RNoneBefore, RItem b t =>
        match before with
        | Some bf => if bf <? t then (RNoneBefore, JB b t, sa2, sb1) else (RItem b t, JNone, sa2, sb1)
        | None => (RItem b t, JNone, sa2, sb1)
        end
    end.
End Join.
Arguments take_split {I} j.
Arguments join_poll {SA SB I} pollA pollB j sa sb before.

(* ---------------------------------------------------------------- SignalStream *)
Record sstream := { ss_j : jstate sigm;
                    ss_qs : queue sigm;             (* MessageStream for the signal rule *)
                    ss_qn : option (queue sigm);    (* Option<MessageStream> for the NameOwnerChanged rule *)
                    ss_src : option N }.            (* src_unique_name *)

(* fdo::NameOwnerChanged::from_message: a signal with this interface and member *)
Definition is_noc (m : sigm) : bool := (s_iface m =? I_DBUS) && (s_member m =? M_NOC).

(* SignalStream::filter (as repaired by 0bffda5d): (yield it?, new src_unique_name).  A NameOwnerChanged whose
   sender is not org.freedesktop.DBus is dropped without a look at its arguments; `signal.args()?` fails on any
   body that is not (sss) *)
Definition ss_filter (src : option N) (m : sigm) : bool * option N :=
  if opt_eqb (s_sender m) src then (true, src)
  else if is_noc m then
    if opt_eqb (s_sender m) (Some DRIVER) then
      match s_body m with
      | BNoc _ _ new => (false, new)
      | _ => (false, src)
      end
    else (false, src)
  else (false, src).

Definition ss_join (st : sstream) (before : option N) :=
  join_poll (@ms_poll sigm) (@oms_poll sigm) (ss_j st) (ss_qs st) (ss_qn st) before.

(* SignalStream::poll_next_before: loop until something passes the filter; None = out of fuel *)
Fixpoint ss_poll (fuel : nat) (st : sstream) (before : option N) : option (pres sigm * sstream) :=
  match fuel with
  | O => None
  | S f =>
      let '(r, j', qs', qn') := ss_join st before in
      let st1 := {| ss_j := j'; ss_qs := qs'; ss_qn := qn'; ss_src := ss_src st |} in
      match r with
      | RItem m t =>
          let '(keep, src') := ss_filter (ss_src st) m in
          let st2 := {| ss_j := j'; ss_qs := qs'; ss_qn := qn'; ss_src := src' |} in
          if keep then Some (RItem m t, st2) else ss_poll f st2 before
      | other => Some (other, st1)
      end
  end.

Definition qlen {A} (q : queue A) : nat := length q.
Definition ss_fuel (st : sstream) : nat :=
  S (S (qlen (ss_qs st) + match ss_qn st with Some q => qlen q | None => O end)).

(* the socket reader hands a signal to the stream's receivers *)
Definition ss_deliver (r : rule) (t : N) (s : sigm) (st : sstream) : sstream :=
  {| ss_j := ss_j st;
     ss_qs := if matches r s then push (ss_qs st) t s else ss_qs st;
     ss_qn := option_map (fun q => if matches noc_rule s then push q t s else q) (ss_qn st);
     ss_src := ss_src st |}.

(* ---------------------------------------------------------------- Proxy::receive_signal(s) as a task *)
Definition C_ADDMATCH : N := 0.
Definition C_GETOWNER : N := 1.
Definition C_GETALL : N := 2.

Inductive nitem := ILeft (m : sigm) | IRight (p : payload).

Inductive phase :=
| PhStart
| PhAddN (c : N) (qr : queue (N * payload))
      (* subscribe_dest_owner_change: conn.add_match(NameOwnerChanged rule) awaits the AddMatch reply *)
| PhOwner (c : N) (j : jstate nitem) (qn : queue sigm) (fut : option (queue (N * payload)))
      (* SignalStream::new: join(name_owner_changed_stream, get_name_owner).next() *)
| PhAddS (c : N) (src : option N) (qn : option (queue sigm)) (qr : queue (N * payload))
      (* MessageStream::for_match_rule(signal_rule) awaits the AddMatch reply *)
| PhReady (st : sstream)
| PhFailed                                     (* receive_signal returned Err *)
| PhPanic.                                     (* .expect("`NameOwnerChanged` signal has no args") *)

Record world := { w_todo : list wmsg;     (* not yet read from the socket *)
                  w_seq : N;              (* messages read so far = sequence number of the last one *)
                  w_reps : N;             (* replies read so far *)
                  w_log : list N;         (* calls made, latest first *)
                  w_ph : phase;
                  w_out : list N;         (* sequence numbers yielded to the consumer, latest first *)
                  w_start : N }.          (* w_seq when the stream was handed to the caller *)

Definition ncalls (w : world) : N := N.of_nat (length (w_log w)).

Definition init_world (h : list wmsg) : world :=
  {| w_todo := h; w_seq := 0; w_reps := 0; w_log := []; w_ph := PhStart; w_out := []; w_start := 0 |}.

Definition set_ph (w : world) (ph : phase) : world :=
  {| w_todo := w_todo w; w_seq := w_seq w; w_reps := w_reps w; w_log := w_log w; w_ph := ph;
     w_out := w_out w; w_start := w_start w |}.

(* send a call: it gets the next number *)
Definition call (w : world) (what : N) (ph : N -> phase) : world :=
  {| w_todo := w_todo w; w_seq := w_seq w; w_reps := w_reps w; w_log := what :: w_log w;
     w_ph := ph (ncalls w + 1); w_out := w_out w; w_start := w_start w |}.

(* ---- the socket reader: one message *)
Definition deliver_sig (cf : cfg) (t : N) (s : sigm) (ph : phase) : phase :=
  match ph with
  | PhOwner c j qn fut => PhOwner c j (if matches noc_rule s then push qn t s else qn) fut
  | PhAddS c src qn qr =>
      PhAddS c src (option_map (fun q => if matches noc_rule s then push q t s else q) qn) qr
  | PhReady st => PhReady (ss_deliver (sig_rule cf) t s st)
  | _ => ph
  end.

(* the method-return channel: every live PendingMethodCall has a receiver *)
Definition deliver_rep (t k : N) (p : payload) (ph : phase) : phase :=
  match ph with
  | PhAddN c qr => PhAddN c (push qr t (k, p))
  | PhOwner c j qn (Some qr) => PhOwner c j qn (Some (push qr t (k, p)))
  | PhAddS c src qn qr => PhAddS c src qn (push qr t (k, p))
  | _ => ph
  end.

(* None: the next message is a reply although every call has been answered — not a bus history *)
Definition tick (cf : cfg) (w : world) : option world :=
  match w_todo w with
  | [] => Some w
  | WSig s :: rest =>
      let t := w_seq w + 1 in
      Some {| w_todo := rest; w_seq := t; w_reps := w_reps w; w_log := w_log w;
              w_ph := deliver_sig cf t s (w_ph w); w_out := w_out w; w_start := w_start w |}
  | WRep p :: rest =>
      if w_reps w <? ncalls w then
        let t := w_seq w + 1 in
        Some {| w_todo := rest; w_seq := t; w_reps := w_reps w + 1; w_log := w_log w;
                w_ph := deliver_rep t (w_reps w + 1) p (w_ph w); w_out := w_out w; w_start := w_start w |}
      else None
  end.

(* ---- the task: one step (up to the next await that is not ready) *)
Definition noc_new (m : sigm) : option (option N) :=
  match s_body m with BNoc _ _ new => Some new | _ => None end.

Definition owner_poll (c : N) (j : jstate nitem) (qn : queue sigm) (fut : option (queue (N * payload))) :=
  join_poll (fun q b => let '(r, q') := ms_poll q b in (map_pres ILeft r, q'))
            (fun f b => let '(r, f') := fut_poll c f b in (map_pres IRight r, f'))
            j qn fut None.

(* "Let's take into account any buffered NameOwnerChanged signal" (as repaired by 902c9069: a release counts) *)
Definition apply_queued (j : jstate nitem) (src : option N) : option N :=
  match j with
  | JA (ILeft m) _ =>
      match s_body m with
      | BNoc nm _ new => if nm =? NAME_W then new else src
      | _ => src
      end
  | _ => src
  end.

Definition client_step (cf : cfg) (w : world) : world :=
  match w_ph w with
  | PhStart =>
      match c_dest cf with
      | DWell => call w C_ADDMATCH (fun c => PhAddN c [])
      | DUnique u => call w C_ADDMATCH (fun c => PhAddS c (Some u) None [])
      end
  | PhAddN c qr =>
      match pmc_poll c qr None with
      | (RItem PErr _, _) => set_ph w PhFailed
      | (RItem _ _, _) => call w C_GETOWNER (fun c' => PhOwner c' JNone [] (Some []))
      | (_, qr') => set_ph w (PhAddN c qr')
      end
  | PhOwner c j qn fut =>
      let '(r, j', qn', fut') := owner_poll c j qn fut in
      let resolved (src : option N) :=
        call w C_ADDMATCH (fun c' => PhAddS c' (apply_queued j' src) (Some qn') []) in
      match r with
      | RItem (ILeft m) _ =>
          match noc_new m with
          | Some new => resolved new
          | None => set_ph w PhPanic
          end
      | RItem (IRight (POwner o)) _ => resolved (Some o)
      | RItem (IRight PErr) _ => resolved None
      | RItem (IRight _) _ => set_ph w PhFailed          (* body().deserialize::<UniqueName>()? *)
      | RTerm => set_ph w PhFailed
      | _ => set_ph w (PhOwner c j' qn' fut')
      end
  | PhAddS c src qn qr =>
      match pmc_poll c qr None with
      | (RItem PErr _, _) => set_ph w PhFailed
      | (RItem _ _, _) =>
          {| w_todo := w_todo w; w_seq := w_seq w; w_reps := w_reps w; w_log := w_log w;
             w_ph := PhReady {| ss_j := JNone; ss_qs := []; ss_qn := qn; ss_src := src |};
             w_out := w_out w; w_start := w_seq w |}
      | (_, qr') => set_ph w (PhAddS c src qn qr')
      end
  | PhReady _ | PhFailed | PhPanic => w
  end.

(* ---- the consumer: stream.next() once *)
Definition consumer_poll (w : world) : world :=
  match w_ph w with
  | PhReady st =>
      match ss_poll (ss_fuel st) st None with
      | Some (RItem _ t, st') =>
          {| w_todo := w_todo w; w_seq := w_seq w; w_reps := w_reps w; w_log := w_log w; w_ph := PhReady st';
             w_out := t :: w_out w; w_start := w_start w |}
      | Some (_, st') => set_ph w (PhReady st')
      | None => w
      end
  | _ => w
  end.

(* ---- schedules *)
Inductive action := ATick | AClient | APoll.

Definition step (cf : cfg) (w : world) (a : action) : world :=
  match a with
  | ATick => match tick cf w with Some w' => w' | None => w end
  | AClient => client_step cf w
  | APoll => consumer_poll w
  end.

Definition run (cf : cfg) (h : list wmsg) (sched : list action) : world :=
  fold_left (step cf) sched (init_world h).

Definition yielded (w : world) : list N := rev (w_out w).
