(* C32/Witness.v — concrete runs: the witnesses of the two repaired findings, and a non-trivial run that meets
   the hypotheses of the theorem. *)
From Coq Require Import List NArith Bool Lia.
Import ListNotations.
From ZV Require Import Base.Bytes C32.Model C32.Spec C32.Facts C32.Proofs.
Local Open Scope N_scope.

Definition sig_from (k : N) (iface member : N) : sigm :=
  {| s_sender := Some k; s_path := P_OBJ; s_iface := iface; s_member := member; s_body := BEmpty |}.
Definition driver_says (old new : option N) : sigm :=
  {| s_sender := Some DRIVER; s_path := P_DRIVER; s_iface := I_DBUS; s_member := M_NOC; s_body := BNoc NAME_W old new |}.
Definition peer_claims (k : N) (path : N) : sigm :=
  {| s_sender := Some k; s_path := path; s_iface := I_DBUS; s_member := M_NOC; s_body := BNoc NAME_W None (Some k) |}.

Definition cf_sig : cfg := {| c_dest := DWell; c_pi := 0; c_pm := Some 0 |}.

(* the statement at full strength: for every bus history and every schedule *)
(* ---- the two former known findings, repaired: both witnesses now run as the specification says *)
(* 1. (fix 902c9069) the name is released right after the lookup answer and both messages are read before
      SignalStream::new runs again: the buffered release is applied, the former owner's signal (5) is not yielded *)
Definition h_release : list wmsg :=
  [WRep PPlain; WRep (POwner 1); WSig (driver_says (Some 1) None); WRep PPlain; WSig (sig_from 1 0 0)].
Definition sched_release : list action :=
  [AClient; ATick; AClient; ATick; ATick; AClient; ATick; AClient; ATick; APoll].

(* 2. (fix 0bffda5d) a proxy whose own interface is org.freedesktop.DBus: a peer's NameOwnerChanged on the
      proxy's path is dropped, the owner's signal (5) is yielded, the stranger's (6) is not *)
Definition cf_dbus : cfg := {| c_dest := DWell; c_pi := I_DBUS; c_pm := None |}.
Definition h_forge : list wmsg :=
  [WRep PPlain; WRep (POwner 1); WRep PPlain; WSig (peer_claims 2 P_OBJ); WSig (sig_from 1 I_DBUS 0);
   WSig (sig_from 2 I_DBUS 0)].
Definition sched_one_by_one (n : nat) : list action :=
  AClient :: flat_map (fun _ => [ATick; AClient]) (seq 0 n) ++ repeat APoll n.

Lemma repaired_histories :
  (bus_history cf_sig h_release = true /\
   let w := run cf_sig h_release sched_release in
   w_todo w = [] /\ drained w /\ yielded w = [] /\ spec_yield cf_sig (w_start w) h_release = []) /\
  (bus_history cf_dbus h_forge = true /\
   let w := run cf_dbus h_forge (sched_one_by_one 6) in
   w_todo w = [] /\ drained w /\ yielded w = [5] /\ spec_yield cf_dbus (w_start w) h_forge = [5]).
Proof.
  split; (split; [vm_compute; reflexivity|]); cbv zeta;
    (split; [vm_compute; reflexivity|]); (split; [|split; vm_compute; reflexivity]);
    unfold drained; vm_compute; eexists; reflexivity.
Qed.

(* ---- non-vacuity: owner, former owner, stranger, an ownership change and two forged claims; the run
        yields exactly the two signals the owner of the moment sent *)
Definition h_clean : list wmsg :=
  [WRep PPlain; WSig (driver_says None (Some 1)); WRep (POwner 1); WRep PPlain;
   WSig (sig_from 1 0 0); WSig (sig_from 2 0 0); WSig (peer_claims 3 P_DRIVER); WSig (sig_from 3 0 0);
   WSig (driver_says (Some 1) (Some 2)); WSig (sig_from 1 0 0); WSig (sig_from 2 0 0);
   WSig (peer_claims 3 P_OBJ); WSig (sig_from 3 0 0); WSig (sig_from 2 0 1)].
Definition sched_clean : list action :=
  [AClient; ATick; AClient; ATick; ATick; AClient; ATick; AClient; ATick; ATick; APoll; ATick; ATick; ATick; ATick;
   ATick; APoll; ATick; ATick; ATick; APoll; APoll; APoll].

Lemma clean_example :
  bus_history cf_sig h_clean = true /\
  let w := run cf_sig h_clean sched_clean in
  w_todo w = [] /\ drained w /\ yielded w = [5; 11] /\ spec_yield cf_sig (w_start w) h_clean = [5; 11].
Proof.
  split; [vm_compute; reflexivity|].
  cbv zeta. split; [vm_compute; reflexivity|]. split; [|split; vm_compute; reflexivity].
  unfold drained. vm_compute. eexists. reflexivity.
Qed.

(* forged claims change nothing: the clean history with the two claims replaced by noise *)
Definition h_clean_noise : list wmsg :=
  map (fun m => if forged_claim m then noise else m) h_clean.
Lemma clean_noise_example :
  yielded (run cf_sig h_clean_noise sched_clean) = [5; 11].
Proof. vm_compute. reflexivity. Qed.
