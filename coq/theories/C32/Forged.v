(* C32/Forged.v — signals that match neither of the stream's rules never reach it: two histories that differ
   only in such signals (in particular: in what peers claim about ownership) give the same run, step by step,
   under every schedule. *)
From Coq Require Import List NArith Bool Lia.
Import ListNotations.
From ZV Require Import Base.Bytes C32.Model C32.Spec C32.Facts C32.Proofs.
Local Open Scope N_scope.

Definition irrelevant (cf : cfg) (m : wmsg) : bool :=
  match m with
  | WSig s => negb (matches (sig_rule cf) s) && negb (matches noc_rule s)
  | WRep _ => false
  end.

Definition with_todo (w : world) (t : list wmsg) : world :=
  {| w_todo := t; w_seq := w_seq w; w_reps := w_reps w; w_log := w_log w; w_ph := w_ph w; w_out := w_out w;
     w_start := w_start w |}.

Lemma client_todo : forall cf w t, client_step cf (with_todo w t) = with_todo (client_step cf w) t.
Proof.
  intros cf [todo sq reps lg ph out start] t. unfold client_step, with_todo, call, set_ph, ncalls.
  cbn [w_ph w_todo w_seq w_reps w_log w_out w_start].
  repeat match goal with
         | |- context [match ?x with _ => _ end] => destruct x
         | |- context [let '(_, _) := ?x in _] => destruct x
         end; reflexivity.
Qed.

Lemma poll_todo : forall w t, consumer_poll (with_todo w t) = with_todo (consumer_poll w) t.
Proof.
  intros [todo sq reps lg ph out start] t. unfold consumer_poll, with_todo, set_ph.
  cbn [w_ph w_todo w_seq w_reps w_log w_out w_start].
  repeat match goal with
         | |- context [match ?x with _ => _ end] => destruct x
         end; reflexivity.
Qed.

Lemma deliver_irrelevant : forall cf t s ph,
  irrelevant cf (WSig s) = true -> deliver_sig cf t s ph = ph.
Proof.
  intros cf t s ph H. cbn [irrelevant] in H. apply andb_true_iff in H. destruct H as [H1 H2].
  apply negb_true_iff in H1, H2.
  destruct ph as [|c qr|c j qn fut|c src qn qr|st| |]; cbn [deliver_sig]; try reflexivity.
  - rewrite H2. reflexivity.
  - rewrite H2. destruct qn; reflexivity.
  - unfold ss_deliver. rewrite H1, H2. destruct st as [j qs [q|] src]; reflexivity.
Qed.

(* the two runs agree on everything but the unread part of the history *)
Definition same_but_todo (cf : cfg) (w w' : world) : Prop :=
  w' = with_todo w (w_todo w') /\
  Forall2 (fun m m' => m = m' \/ (irrelevant cf m = true /\ irrelevant cf m' = true)) (w_todo w) (w_todo w').

Lemma with_todo_id : forall w, with_todo w (w_todo w) = w.
Proof. destruct w; reflexivity. Qed.

Lemma client_keeps_todo : forall cf x, w_todo (client_step cf x) = w_todo x.
Proof.
  intros cf [todo sq reps lg ph out start]. unfold client_step, call, set_ph.
  cbn [w_ph w_todo w_seq w_reps w_log w_out w_start].
  repeat match goal with
         | |- context [match ?y with _ => _ end] => destruct y
         | |- context [let '(_, _) := ?y in _] => destruct y
         end; reflexivity.
Qed.

Lemma poll_keeps_todo : forall x, w_todo (consumer_poll x) = w_todo x.
Proof.
  intros [todo sq reps lg ph out start]. unfold consumer_poll, set_ph.
  cbn [w_ph w_todo w_seq w_reps w_log w_out w_start].
  repeat match goal with
         | |- context [match ?y with _ => _ end] => destruct y
         end; reflexivity.
Qed.

Lemma step_same : forall cf w w' a, same_but_todo cf w w' -> same_but_todo cf (step cf w a) (step cf w' a).
Proof.
  intros cf w w' a [He Hf]. destruct a; cbn [step].
  - (* the socket reader *)
    destruct w as [todo sq reps lg ph out start]. destruct w' as [todo' sq' reps' lg' ph' out' start'].
    unfold with_todo in He. cbn [w_todo w_seq w_reps w_log w_ph w_out w_start] in He, Hf.
    inversion He; subst. clear He.
    unfold tick, ncalls. cbn [w_todo w_seq w_reps w_log w_ph w_out w_start].
    inversion Hf as [|m m' r r' Hm Hr]; subst.
    + split; [reflexivity|constructor].
    + destruct Hm as [<-|[I1 I2]].
      * destruct m as [s|p].
        -- split; [reflexivity|exact Hr].
        -- destruct (reps <? N.of_nat (length lg)).
           ++ split; [reflexivity|exact Hr].
           ++ split; [reflexivity|]. cbn [w_todo]. constructor; [left; reflexivity|exact Hr].
      * destruct m as [s|p]; [|discriminate]. destruct m' as [s'|p']; [|discriminate].
        rewrite (deliver_irrelevant _ _ _ _ I1), (deliver_irrelevant _ _ _ _ I2).
        split; [reflexivity|exact Hr].
  - rewrite He, client_todo. split.
    + unfold with_todo. cbn. reflexivity.
    + cbn [w_todo with_todo]. rewrite client_keeps_todo. exact Hf.
  - rewrite He, poll_todo. split.
    + unfold with_todo. cbn. reflexivity.
    + cbn [w_todo with_todo]. rewrite poll_keeps_todo. exact Hf.
Qed.

Lemma run_same : forall cf sched w w',
  same_but_todo cf w w' -> same_but_todo cf (fold_left (step cf) sched w) (fold_left (step cf) sched w').
Proof.
  induction sched as [|a sched IH]; intros w w' H; [exact H|]. cbn [fold_left]. apply IH. apply step_same. exact H.
Qed.

(* forged claims and noise are irrelevant unless the proxy itself sits on org.freedesktop.DBus *)
Lemma forged_irrelevant : forall cf m, c_pi cf <> I_DBUS -> forged_claim m = true -> irrelevant cf m = true.
Proof.
  intros cf [s|p] Hpi H; [|discriminate]. cbn [forged_claim irrelevant] in *.
  apply andb_true_iff in H. destruct H as [Hn Hs]. apply negb_true_iff in Hs.
  unfold is_noc in Hn. apply andb_true_iff in Hn. destruct Hn as [Hi Hm]. apply N.eqb_eq in Hi.
  apply andb_true_iff. split; apply negb_true_iff.
  - unfold matches, sig_rule, sig_rule_of. cbn [r_iface]. rewrite Hi.
    destruct (I_DBUS =? c_pi cf) eqn:E; [apply N.eqb_eq in E; congruence|].
    rewrite andb_false_r. reflexivity.
  - unfold matches, noc_rule. cbn [r_sender]. destruct (s_sender s) as [x|]; [|reflexivity].
    cbn [opt_eqb] in Hs. rewrite Hs. reflexivity.
Qed.

Lemma noise_irrelevant : forall cf, irrelevant cf noise = true.
Proof.
  intro cf. unfold noise, irrelevant, matches, sig_rule, sig_rule_of, noc_rule.
  cbn [r_sender r_path r_iface r_member r_arg0 s_sender s_path s_iface s_member s_body].
  rewrite !andb_false_r. destruct (match c_dest cf with DUnique u => Some u | DWell => None end); cbn;
    rewrite ?andb_false_r; reflexivity.
Qed.

Theorem forged_ignored : forall cf h h' sched,
  c_pi cf <> I_DBUS -> Forall2 claims_differ h h' ->
  yielded (run cf h sched) = yielded (run cf h' sched) /\
  w_ph (run cf h sched) = w_ph (run cf h' sched).
Proof.
  intros cf h h' sched Hpi Hf.
  assert (H0 : same_but_todo cf (init_world h) (init_world h')).
  { split; [reflexivity|]. cbn [w_todo init_world]. induction Hf as [|m m' r r' Hm Hr IH]; constructor; [|exact IH].
    destruct Hm as [E|[F1 [F2|F2]]]; [left; exact E|right|right].
    - split; apply forged_irrelevant; assumption.
    - split; [apply forged_irrelevant; assumption|subst; apply noise_irrelevant]. }
  destruct (run_same cf sched _ _ H0) as [He _]. unfold run. rewrite He. split; reflexivity.
Qed.
