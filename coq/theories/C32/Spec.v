(* C32/Spec.v — what the property says, written from the property text and the D-Bus specification only
   (no ordered streams, no channels, no tasks): one left-to-right pass over the wire history.

   The owner of the proxy's well-known name is what the owner lookup (the reply to GetNameOwner, the
   second call the stream creation makes) said, updated by every later NameOwnerChanged signal that the
   bus driver itself emitted for that name.  A signal is yielded iff it is one the stream was asked for
   (object path, interface, member), it was received after the stream was handed to the caller, and its
   sender is the owner at that point.  For a unique-name destination the owner is that name, always.   *)
From Coq Require Import List NArith Bool.
Import ListNotations.
From ZV Require Import Base.Bytes C32.Model.
Local Open Scope N_scope.

(* the bus driver's ownership-change notification for the proxy's name: Some (new owner) *)
Definition driver_noc (s : sigm) : option (option N) :=
  if opt_eqb (s_sender s) (Some DRIVER) && (s_path s =? P_DRIVER) && (s_iface s =? I_DBUS) && (s_member s =? M_NOC)
  then match s_body s with
       | BNoc nm _ new => if nm =? NAME_W then Some new else None
       | _ => None
       end
  else None.

(* a signal the stream was asked for *)
Definition wanted (cf : cfg) (s : sigm) : bool :=
  (s_path s =? P_OBJ) && (s_iface s =? c_pi cf)
  && (match c_pm cf with Some m => s_member s =? m | None => true end).

Definition LOOKUP : N := 2.     (* the owner lookup is the second call *)

Definition lookup_result (p : payload) : option N := match p with POwner o => Some o | _ => None end.

Record sst := { sp_rep : N;               (* replies seen *)
                sp_owner : option N }.    (* current owner, as far as the proxy may know *)

Definition sp_init (cf : cfg) : sst :=
  {| sp_rep := 0; sp_owner := match c_dest cf with DUnique u => Some u | DWell => None end |}.

Definition sp_step (cf : cfg) (st : sst) (m : wmsg) : sst :=
  match c_dest cf with
  | DUnique _ => match m with WRep _ => {| sp_rep := sp_rep st + 1; sp_owner := sp_owner st |} | WSig _ => st end
  | DWell =>
      match m with
      | WRep p =>
          {| sp_rep := sp_rep st + 1;
             sp_owner := if sp_rep st + 1 =? LOOKUP then lookup_result p else sp_owner st |}
      | WSig s =>
          match driver_noc s with
          | Some new => if LOOKUP <=? sp_rep st then {| sp_rep := sp_rep st; sp_owner := new |} else st
          | None => st
          end
      end
  end.

Definition from_owner (st : sst) (s : sigm) : bool :=
  match sp_owner st with Some o => opt_eqb (s_sender s) (Some o) | None => false end.

(* the sequence numbers that must be yielded; [idx] = sequence number of the head of [h] *)
Fixpoint spec_from (cf : cfg) (start : N) (st : sst) (idx : N) (h : list wmsg) : list N :=
  match h with
  | [] => []
  | m :: r =>
      (match m with
       | WSig s => if wanted cf s && (start <? idx) && from_owner st s then [idx] else []
       | WRep _ => []
       end) ++ spec_from cf start (sp_step cf st m) (idx + 1) r
  end.

Definition spec_yield (cf : cfg) (start : N) (h : list wmsg) : list N := spec_from cf start (sp_init cf) 1 h.

(* ---------------------------------------------------------------- what a bus history looks like *)
(* the bus stamps every message with its sender *)
Definition stamped (h : list wmsg) : bool :=
  forallb (fun m => match m with WSig s => match s_sender s with Some _ => true | None => false end | _ => true end) h.

(* the driver is never named as the owner of a well-known name *)
Definition not_driver (o : option N) : bool := negb (opt_eqb o (Some DRIVER)).
Fixpoint owners_ok_from (nrep : N) (h : list wmsg) : bool :=
  match h with
  | [] => true
  | WRep p :: r => (if nrep + 1 =? LOOKUP then not_driver (lookup_result p) else true) && owners_ok_from (nrep + 1) r
  | WSig s :: r => (match driver_noc s with Some new => not_driver new | None => true end) && owners_ok_from nrep r
  end.

(* the bus is sequential: if it announced owner changes of the name after it had installed the proxy's
   NameOwnerChanged match (reply 1) and before it answered the lookup (reply 2), the answer is the owner
   named by the last of them *)
Fixpoint consistent_from (nrep : N) (last : option (option N)) (h : list wmsg) : bool :=
  match h with
  | [] => true
  | WRep p :: r =>
      if nrep + 1 =? LOOKUP then
        match last with Some o => opt_eqb (lookup_result p) o | None => true end
      else consistent_from (nrep + 1) None r
  | WSig s :: r =>
      match driver_noc s with
      | Some new => consistent_from nrep (if 1 <=? nrep then Some new else None) r
      | None => consistent_from nrep last r
      end
  end.

(* the bus driver emits NameOwnerChanged from its own object /org/freedesktop/DBus only — never from the proxied
   object.  (Only matters for a proxy whose own interface is org.freedesktop.DBus: otherwise no wanted signal has
   the NameOwnerChanged shape and the condition holds for every history.) *)
Definition driver_claim_off_path (cf : cfg) (m : wmsg) : bool :=
  match m with
  | WSig s => wanted cf s && is_noc s && opt_eqb (s_sender s) (Some DRIVER)
  | WRep _ => false
  end.

Definition bus_history (cf : cfg) (h : list wmsg) : bool :=
  stamped h && negb (existsb (driver_claim_off_path cf) h) &&
  match c_dest cf with
  | DUnique _ => true
  | DWell => owners_ok_from 0 h && consistent_from 0 None h
  end.

(* ---------------------------------------------------------------- forged ownership claims *)
(* a NameOwnerChanged-shaped signal that does not carry the bus driver's sender *)
Definition forged_claim (m : wmsg) : bool :=
  match m with
  | WSig s => is_noc s && negb (opt_eqb (s_sender s) (Some DRIVER))
  | WRep _ => false
  end.

(* a signal nobody subscribed to *)
Definition noise : wmsg :=
  WSig {| s_sender := Some 9; s_path := 1; s_iface := 1; s_member := 1; s_body := BEmpty |}.

(* the same history up to what peers claim about ownership: every forged claim may be replaced by any other
   forged claim or by noise (positions, hence sequence numbers, stay the same) *)
Definition claims_differ (m m' : wmsg) : Prop :=
  m = m' \/ (forged_claim m = true /\ (forged_claim m' = true \/ m' = noise)).

(* ---------------------------------------------------------------- vocabulary of the theorems *)
(* the stream exists and a poll of it finds nothing more to yield *)
Definition drained (w : world) : Prop :=
  match w_ph w with
  | PhReady st => exists st', ss_poll (ss_fuel st) st None = Some (RPending, st')
  | _ => False
  end.

