(* C31/Proofs.v — under every schedule the cache holds what C31/Spec.v implies for the messages received and
   processed so far; uncached names never hold a value; a silent property stream has reported the cached value. *)
From Coq Require Import List NArith Bool Lia.
Import ListNotations.
From ZV Require Import Base.Bytes C32.Model C32.Spec C32.Facts C32.Proofs C31.Model C31.Spec C31.Facts.
Local Open Scope N_scope.

(* ---------------------------------------------------------------- the specification, prefix by prefix *)
Section CSpec.
  Variable pc : pcfg.
  Let cf := scfg pc.

  Lemma spec_state_snoc : forall pre m, spec_state pc (pre ++ [m]) = q_step pc (spec_state pc pre) m.
  Proof. intros. unfold spec_state. rewrite fold_left_app. reflexivity. Qed.

  Lemma q_o_step : forall st m, q_o (q_step pc st m) = sp_step cf (q_o st) m.
  Proof.
    intros st m. unfold q_step. destruct m as [s|p]; [reflexivity|].
    destruct (sp_rep (q_o st) + 1 =? GETALL (p_dest pc)); [destruct p|]; reflexivity.
  Qed.

  Lemma q_o_run : forall pre, q_o (spec_state pc pre) = sp_run cf pre.
  Proof.
    intros pre. induction pre as [|m pre IH] using rev_ind; [reflexivity|].
    rewrite spec_state_snoc, q_o_step, IH, sp_run_snoc. reflexivity.
  Qed.

  (* PropertiesChanged never looks like NameOwnerChanged: the driver-claim condition of C32's bus histories
     holds for every history *)
  Lemma no_driver_claim : forall h, existsb (driver_claim_off_path cf) h = false.
  Proof.
    intro h. induction h as [|m h IH]; [reflexivity|]. cbn [existsb]. rewrite IH, orb_false_r.
    destruct m as [s|p]; [|reflexivity]. unfold driver_claim_off_path, wanted, is_noc, cf, scfg. cbn [c_pi c_pm].
    destruct (s_iface s =? I_PROPS) eqn:E; [|rewrite andb_false_r; reflexivity].
    apply N.eqb_eq in E. rewrite E. cbn. rewrite !andb_false_r. reflexivity.
  Qed.

  Lemma wanted_props : forall s, wanted cf s = props_signal s.
  Proof. reflexivity. Qed.

  (* before the snapshot nothing is cached, according to the specification *)
  Lemma q_before : forall pre, sp_rep (sp_run cf pre) < GETALL (p_dest pc) ->
    q_ok (spec_state pc pre) = false /\ forall p, q_val (spec_state pc pre) p = None.
  Proof.
    intro pre. induction pre as [|m pre IH] using rev_ind; intro H; [split; reflexivity|].
    rewrite sp_run_snoc in H. rewrite spec_state_snoc.
    assert (Hlt : sp_rep (sp_run cf pre) < GETALL (p_dest pc)).
    { destruct m as [s|p]; [rewrite sp_rep_snoc_sig in H; exact H|rewrite sp_rep_snoc_rep in H; lia]. }
    destruct (IH Hlt) as [Hok Hv]. unfold q_step. rewrite q_o_run.
    destruct m as [s|p].
    - cbn [q_ok q_val]. rewrite Hok. cbn [andb]. split; [reflexivity|assumption].
    - rewrite sp_rep_snoc_rep in H.
      destruct (sp_rep (sp_run cf pre) + 1 =? GETALL (p_dest pc)) eqn:E; [apply N.eqb_eq in E; lia|].
      cbn [q_ok q_val]. split; assumption.
  Qed.

  Lemma q_step_sig : forall Q s,
    q_ok (q_step pc Q (WSig s)) = q_ok Q /\
    q_val (q_step pc Q (WSig s)) =
      (if q_ok Q && props_signal s && from_owner (q_o Q) s then vapply pc (q_val Q) s else q_val Q).
  Proof.
    intros Q s. unfold q_step, vapply. cbn [q_ok q_val]. split; [reflexivity|].
    destruct (q_ok Q && props_signal s && from_owner (q_o Q) s); [|reflexivity].
    destruct (s_body s); reflexivity.
  Qed.
End CSpec.

(* ---------------------------------------------------------------- the SignalStream as seen by the cache task *)
Lemma ssp_spec : forall n st before r st',
  ss_ok n st -> ssp st before = (r, st') ->
  ss_ok n st' /\ (ss_qn st' = None <-> ss_qn st = None) /\
  pspec (ss_pend st) (ss_pend st') before r /\ ss_end st' = ss_end st.
Proof.
  intros n st before r st' (Hwf & Hso & Hle) H. unfold ssp in H.
  destruct (ss_poll_total st before Hwf Hso) as (r0 & st0 & E & Hwf' & Hp & He & k & Hk).
  rewrite E in H. inversion H; subst r0 st0. split; [|split; [|split]].
  - split; [exact Hwf'|]. rewrite Hk. split; [apply sorted_skipn; exact Hso|apply Forall_skipn; exact Hle].
  - exact (ss_poll_qn _ _ _ _ _ E).
  - exact Hp.
  - exact He.
Qed.

Lemma pend_all_le : forall n st, ss_ok n st -> all_le n (ss_pend st).
Proof. intros n st (_ & _ & Hle). unfold ss_pend. apply frun_Forall. exact Hle. Qed.

(* ---- the join of PropertiesCache::init on the shapes its inputs can have *)
Lemma init_poll_waiting : forall c st,
  init_poll c JNone st (Some []) =
  match ssp st None with
  | (RItem m t, st1) => (RItem (CLeft m) t, JNone, st1, Some [])
  | (RPending, st1) => (RPending, JNone, st1, Some [])
  | (RNoneBefore, st1) => (RPending, JNone, st1, Some [])
  | (RTerm, st1) => (RPending, JOnlyB, st1, Some [])
  end.
Proof.
  intros c st. unfold init_poll, join_poll, update. cbn [take_split ordering].
  destruct (ssp st None) as [[m t| | |] st1]; cbn; reflexivity.
Qed.

Lemma init_poll_reply_item : forall c st tr p m t st1,
  ssp st None = (RItem m t, st1) ->
  init_poll c JNone st (Some [(tr, (c, p))]) =
  if t <=? tr then (RItem (CLeft m) t, JB (CRight p) tr, st1, None)
  else (RItem (CRight p) tr, JA (CLeft m) t, st1, None).
Proof.
  intros c st tr p m t st1 E. unfold init_poll, join_poll, update. cbn [take_split ordering].
  rewrite E. cbn. rewrite N.eqb_refl. cbn. destruct (t <=? tr); reflexivity.
Qed.

Lemma init_poll_reply_pending : forall c st tr p st1,
  ssp st None = (RPending, st1) ->
  init_poll c JNone st (Some [(tr, (c, p))]) =
  match ssp st1 (Some tr) with
  | (RItem m t, st2) => if t <=? tr then (RItem (CLeft m) t, JB (CRight p) tr, st2, None)
                        else (RItem (CRight p) tr, JA (CLeft m) t, st2, None)
  | (RNoneBefore, st2) => (RItem (CRight p) tr, JNone, st2, None)
  | (RPending, st2) => (RPending, JB (CRight p) tr, st2, None)
  | (RTerm, st2) => (RItem (CRight p) tr, JOnlyB, st2, None)
  end.
Proof.
  intros c st tr p st1 E. unfold init_poll, join_poll, update. cbn [take_split ordering].
  rewrite E. cbn. rewrite N.eqb_refl. cbn.
  destruct (ssp st1 (Some tr)) as [[m t| | |] st2]; cbn; try reflexivity; try (destruct (t <=? tr); reflexivity).
Qed.

Lemma init_poll_buffered : forall c st tr p,
  init_poll c (JB (CRight p) tr) st None =
  match ssp st (Some tr) with
  | (RItem m t, st1) => if t <=? tr then (RItem (CLeft m) t, JB (CRight p) tr, st1, None)
                        else (RItem (CRight p) tr, JA (CLeft m) t, st1, None)
  | (RNoneBefore, st1) => (RItem (CRight p) tr, JNone, st1, None)
  | (RPending, st1) => (RPending, JB (CRight p) tr, st1, None)
  | (RTerm, st1) => (RItem (CRight p) tr, JOnlyB, st1, None)
  end.
Proof.
  intros c st tr p. unfold init_poll, join_poll, update. cbn [take_split ordering].
  destruct (ssp st (Some tr)) as [[m t| | |] st1]; cbn; try reflexivity; try (destruct (t <=? tr); reflexivity).
Qed.

(* ---------------------------------------------------------------- the invariant *)
Section CRun.
  Variable pc : pcfg.
  Variable h : list wmsg.
  Let cf := scfg pc.
  Hypothesis Hst : stamped h = true.
  Hypothesis Hown : c_dest cf = DWell -> owners_ok_from 0 h = true.
  Hypothesis Hcon : c_dest cf = DWell -> consistent_from 0 None h = true.

  Let Hdc : existsb (driver_claim_off_path cf) h = false := no_driver_claim pc h.

  Definition G : N := creation (p_dest pc) + 1.

  Lemma G_getall : G = GETALL (p_dest pc).
  Proof. unfold G. destruct (p_dest pc); reflexivity. Qed.

  Definition qn_ok (st : sstream) : Prop :=
    match p_dest pc with DWell => ss_qn st <> None | DUnique _ => ss_qn st = None end.
  Definition none_vals (c : cache) : Prop := forall p, k_val c p = None.

  (* the snapshot [p] received at some point, and the updates [pa] received after it and not yet applied *)
  Definition snap_rel (p : payload) (pa : queue sigm) (Q : pst) : Prop :=
    match p with
    | PSnap l => q_ok Q = true /\ veq (vpend pc (upd_val (p_unc pc) (fun _ => None) l []) pa) (q_val Q)
    | _ => q_ok Q = false /\ forall q, q_val Q q = None
    end.

  Definition SInv (x : cworld) (pre : list wmsg) : Prop :=
    let w := cw x in
    let Q := spec_state pc pre in
    match c_stage x with
    | SNew => PInv cf w pre /\ none_vals (c_cache x) /\ c_ready x = None
    | SInit c j fut =>
        exists st, w_ph w = PhReady st /\ c = G /\ ncalls w = G /\ ss_ok (w_seq w) st /\ qn_ok st /\
          ss_end st = sp_owner (sp_run cf pre) /\ none_vals (c_cache x) /\ c_ready x = None /\
          ((w_reps w = creation (p_dest pc) /\ j = JNone /\ fut = Some []) \/
           (w_reps w = G /\ exists tr p pb pa,
              ((j = JNone /\ fut = Some [(tr, (G, p))]) \/ (j = JB (CRight p) tr /\ fut = None)) /\
              ss_pend st = pb ++ pa /\ all_lt tr pb /\ all_gt tr pa /\ tr <= w_seq w /\ snap_rel p pa Q))
    | SKeep =>
        exists st, w_ph w = PhReady st /\ ncalls w = G /\ w_reps w = G /\ ss_ok (w_seq w) st /\ qn_ok st /\
          ss_end st = sp_owner (sp_run cf pre) /\ c_ready x = Some true /\ q_ok Q = true /\
          veq (vpend pc (k_val (c_cache x)) (ss_pend st)) (q_val Q)
    | SFailed =>
        none_vals (c_cache x) /\ c_ready x = Some false /\ w_reps w = ncalls w /\
        q_ok Q = false /\ forall q, q_val Q q = None
    end.

  Definition CInv (x : cworld) : Prop :=
    exists pre, Base cf h (w_todo (cw x)) (w_seq (cw x)) (w_reps (cw x)) (ncalls (cw x)) pre /\
                unc_none (p_unc pc) (k_val (c_cache x)) /\ SInv x pre.

  (* ---- a signal arrives while the task owns the stream *)
  Lemma stream_sig : forall st n s pre rest reps nc,
    Base cf h (WSig s :: rest) n reps nc pre ->
    ss_ok n st -> qn_ok st -> creation (p_dest pc) <= reps ->
    ss_end st = sp_owner (sp_run cf pre) ->
    let st' := ss_deliver (sig_rule cf) (n + 1) s st in
    let Q := spec_state pc pre in
    let hit := props_signal s && from_owner (sp_run cf pre) s in
    ss_ok (n + 1) st' /\ qn_ok st' /\
    ss_pend st' = ss_pend st ++ (if hit then [(n + 1, s)] else []) /\
    ss_end st' = sp_owner (sp_run cf (pre ++ [WSig s])) /\
    q_ok (spec_state pc (pre ++ [WSig s])) = q_ok Q /\
    q_val (spec_state pc (pre ++ [WSig s])) = (if q_ok Q && hit then vapply pc (q_val Q) s else q_val Q).
  Proof.
    intros st n s pre rest reps nc B Hok Hq Hreps He st' Q hit.
    destruct (in_hist cf h Hst Hdc _ _ _ _ _ s rest B eq_refl) as [Hsnd Hnoc].
    assert (Hq' : match c_dest cf with
                  | DWell => ss_qn st <> None /\ LOOKUP <= sp_rep (sp_run cf pre)
                  | DUnique _ => ss_qn st = None
                  end).
    { unfold qn_ok in Hq. change (c_dest cf) with (p_dest pc). destruct (p_dest pc) eqn:Hd; [exact Hq|].
      split; [exact Hq|]. rewrite (b_reps _ _ _ _ _ _ _ B). cbn in Hreps. unfold LOOKUP. lia. }
    destruct (ready_sig cf h Hown Hcon st n s (sp_run cf pre) 0 Hok (N.le_0_l n) Hq' He
                (b_nd _ _ _ _ _ _ _ B) (base_new_ok cf h Hown Hcon _ _ _ _ _ _ B)
                (fun u Hu => sp_owner_unique cf u pre Hu) Hsnd Hnoc) as (Hok' & Hqn' & Hp' & He').
    assert (H0 : (0 <? n + 1) = true) by (apply N.ltb_lt; lia).
    rewrite H0, andb_true_r in Hp'. change (wanted cf s) with (props_signal s) in Hp'.
    split; [exact Hok'|]. split; [exact Hqn'|]. split; [exact Hp'|].
    split; [rewrite sp_run_snoc; exact He'|].
    rewrite spec_state_snoc. destruct (q_step_sig pc (spec_state pc pre) s) as [H1 H2].
    split; [exact H1|]. rewrite H2, q_o_run. subst hit Q.
    destruct (q_ok (spec_state pc pre)); cbn [andb]; reflexivity.
  Qed.

  Lemma owner_rep_keep : forall pre p, sp_rep (sp_run cf pre) + 1 = G ->
    sp_owner (sp_run cf (pre ++ [WRep p])) = sp_owner (sp_run cf pre).
  Proof.
    intros pre p Hr. rewrite sp_run_snoc. unfold sp_step. change (c_dest cf) with (p_dest pc).
    unfold G in Hr. destruct (p_dest pc); [reflexivity|]. cbn [sp_owner]. cbn in Hr.
    destruct (sp_rep (sp_run cf pre) + 1 =? LOOKUP) eqn:E; [apply N.eqb_eq in E; unfold LOOKUP in E; lia|reflexivity].
  Qed.

  Lemma snap_rel_rep : forall pre p, sp_rep (sp_run cf pre) + 1 = G ->
    snap_rel p [] (spec_state pc (pre ++ [WRep p])).
  Proof.
    intros pre p Hr. rewrite spec_state_snoc. unfold q_step. rewrite q_o_run. fold cf. rewrite Hr, G_getall, N.eqb_refl.
    assert (Hlt : sp_rep (sp_run cf pre) < GETALL (p_dest pc)) by (rewrite <- G_getall; lia).
    destruct (q_before pc pre Hlt) as [Hok Hv].
    unfold snap_rel. destruct p; cbn [q_ok q_val]; try (split; [reflexivity|exact Hv]).
    split; [reflexivity|]. intro q. reflexivity.
  Qed.

  (* ---- the socket reader *)
  Lemma ctick_inv : forall x x', CInv x -> ctick pc x = Some x' -> CInv x'.
  Proof.
    intros x x' (pre & B & Hu & S) H. unfold ctick in H. fold cf in H.
    destruct (tick cf (cw x)) as [w'|] eqn:Et; [|discriminate]. unfold tick in Et.
    destruct (w_todo (cw x)) as [|[s|p] rest] eqn:Etodo.
    - (* nothing to read *)
      inversion Et; subst w'. assert (x' = set_cw x (cw x)) by (destruct (c_stage x); inversion H; reflexivity).
      subst x'. exists pre. unfold SInv in *. cbn [cw set_cw c_stage c_cache c_ready]. rewrite Etodo.
      split; [exact B|]. split; [exact Hu|exact S].
    - (* a signal *)
      inversion Et; subst w'. clear Et.
      assert (x' = set_cw x {| w_todo := rest; w_seq := w_seq (cw x) + 1; w_reps := w_reps (cw x); w_log := w_log (cw x);
                               w_ph := deliver_sig cf (w_seq (cw x) + 1) s (w_ph (cw x)); w_out := w_out (cw x);
                               w_start := w_start (cw x) |})
        by (destruct (c_stage x); inversion H; reflexivity).
      subst x'. clear H. exists (pre ++ [WSig s]).
      pose proof (Base_sig cf h Hown Hcon _ _ _ _ _ _ B) as B'.
      unfold SInv in *. cbn [cw set_cw c_stage c_cache c_ready w_todo w_seq w_reps w_ph].
      match goal with |- context [ncalls ?w] => change (ncalls w) with (ncalls (cw x)) end.
      split; [exact B'|]. split; [exact Hu|].
      destruct (c_stage x) as [|c j fut| |] eqn:Estage.
      + destruct S as (P & Hn & Hr). rewrite <- Etodo in B.
        destruct (tick_sig_inv cf h Hst Hdc Hown Hcon (cw x) pre s rest Etodo B P) as [_ P'].
        split; [exact P'|]. split; assumption.
      + destruct S as (st & Eph & Hc & Hnc & Hok & Hq & He & Hnv & Hrd & Hcase).
        assert (Hreps : creation (p_dest pc) <= w_reps (cw x)) by (destruct Hcase as [(E & _)|(E & _)]; unfold G in *; lia).
        destruct (stream_sig st _ s pre rest _ _ B Hok Hq Hreps He) as (Hok' & Hq' & Hp' & He' & Hqok & Hqv).
        rewrite Eph. cbn [deliver_sig]. exists (ss_deliver (sig_rule cf) (w_seq (cw x) + 1) s st).
        split; [reflexivity|]. repeat (split; [assumption|]).
        destruct Hcase as [Ha|(Hr & tr & p & pb & pa & Hjf & Hpend & Hb & Hga & Htr & Hsr)]; [left; exact Ha|].
        right. split; [exact Hr|].
        exists tr, p, pb, (pa ++ (if props_signal s && from_owner (sp_run cf pre) s then [(w_seq (cw x) + 1, s)] else [])).
        split; [exact Hjf|]. split; [rewrite Hp', Hpend, app_assoc; reflexivity|]. split; [exact Hb|].
        split; [apply Forall_app; split; [exact Hga|destruct (props_signal s && from_owner (sp_run cf pre) s); constructor; [cbn; lia|constructor]]|].
        split; [lia|].
        unfold snap_rel in *. destruct p; try (rewrite Hqok, Hqv; destruct Hsr as [Hs1 Hs2]; rewrite Hs1; cbn [andb]; split; [reflexivity|exact Hs2]).
        destruct Hsr as [Hs1 Hs2]. rewrite Hqok, Hqv, Hs1. cbn [andb]. split; [reflexivity|].
        destruct (props_signal s && from_owner (sp_run cf pre) s).
        * rewrite vpend_app. cbn [vpend fold_left snd]. apply vapply_ext. exact Hs2.
        * rewrite app_nil_r. exact Hs2.
      + destruct S as (st & Eph & Hnc & Hr & Hok & Hq & He & Hrd & Hqk & Hv).
        assert (Hreps : creation (p_dest pc) <= w_reps (cw x)) by (unfold G in *; lia).
        destruct (stream_sig st _ s pre rest _ _ B Hok Hq Hreps He) as (Hok' & Hq' & Hp' & He' & Hqok & Hqv).
        rewrite Eph. cbn [deliver_sig]. exists (ss_deliver (sig_rule cf) (w_seq (cw x) + 1) s st).
        split; [reflexivity|]. repeat (split; [assumption|]). split; [rewrite Hqok; exact Hqk|].
        rewrite Hp', Hqv, Hqk. cbn [andb].
        destruct (props_signal s && from_owner (sp_run cf pre) s).
        * rewrite vpend_app. cbn [vpend fold_left snd]. apply vapply_ext. exact Hv.
        * rewrite app_nil_r. exact Hv.
      + destruct S as (Hnv & Hrd & Hr & Hqk & Hv). repeat (split; [assumption|]).
        rewrite spec_state_snoc. destruct (q_step_sig pc (spec_state pc pre) s) as [H1 H2].
        rewrite H1, H2. split; [exact Hqk|]. rewrite Hqk. cbn [andb]. exact Hv.
    - (* a reply *)
      destruct (w_reps (cw x) <? ncalls (cw x)) eqn:Elt; [|discriminate]. apply N.ltb_lt in Elt.
      inversion Et; subst w'. clear Et.
      pose proof (Base_rep cf h Hown Hcon _ _ _ _ _ _ Elt B) as B'.
      unfold SInv in S.
      destruct (c_stage x) as [|c j fut| |] eqn:Estage.
      + (* the stream is being created *)
        inversion H; subst x'. clear H. exists (pre ++ [WRep p]).
        destruct S as (P & Hn & Hr). rewrite <- Etodo in B.
        destruct (tick_rep_inv cf h Hown Hcon (cw x) pre p rest Etodo Elt B P) as [_ P'].
        unfold SInv. cbn [cw set_cw c_stage c_cache c_ready w_todo w_seq w_reps w_ph]. rewrite Estage.
        match goal with |- context [ncalls ?w] => change (ncalls w) with (ncalls (cw x)) end.
        split; [exact B'|]. split; [exact Hu|]. split; [exact P'|]. split; assumption.
      + (* the GetAll reply *)
        destruct S as (st & Eph & Hc & Hnc & Hok & Hq & He & Hnv & Hrd & Hcase).
        destruct Hcase as [(Hr & Hj & Hf)|(Hr & _)]; [|lia]. subst j fut c.
        cbn [w_seq w_reps] in H. inversion H; subst x'. clear H. exists (pre ++ [WRep p]).
        unfold SInv. cbn [cw c_stage c_cache c_ready w_todo w_seq w_reps w_ph].
        match goal with |- context [ncalls ?w] => change (ncalls w) with (ncalls (cw x)) end.
        split; [exact B'|]. split; [exact Hu|].
        rewrite Eph. cbn [deliver_rep]. exists st. split; [reflexivity|]. split; [reflexivity|]. split; [exact Hnc|].
        destruct Hok as (Hwf & Hso & Hle).
        split; [split; [exact Hwf|split; [exact Hso|eapply all_le_mono; [|exact Hle]; lia]]|].
        split; [exact Hq|].
        assert (Hrg : sp_rep (sp_run cf pre) + 1 = G) by (rewrite (b_reps _ _ _ _ _ _ _ B); unfold G; lia).
        split; [rewrite (owner_rep_keep pre p Hrg); exact He|]. split; [exact Hnv|]. split; [exact Hrd|].
        right. split; [unfold G; lia|].
        exists (w_seq (cw x) + 1), p, (ss_pend st), [].
        split; [left; split; [reflexivity|]; unfold push; cbn [app]; do 4 f_equal; unfold G; lia|].
        split; [rewrite app_nil_r; reflexivity|].
        split; [apply all_le_lt_succ; apply pend_all_le; repeat split; assumption|].
        split; [constructor|]. split; [lia|]. apply snap_rel_rep. exact Hrg.
      + destruct S as (st & _ & Hnc & Hr & _). lia.
      + destruct S as (_ & _ & Hr & _). lia.
  Qed.

  (* ---- the snapshot populates an empty cache *)
  Lemma snap_populate : forall c l pa Q,
    none_vals c -> unc_none (p_unc pc) (k_val c) -> snap_rel (PSnap l) pa Q ->
    let c1 := update_cache (p_unc pc) c l [] in
    unc_none (p_unc pc) (k_val c1) /\ q_ok Q = true /\ veq (vpend pc (k_val c1) pa) (q_val Q).
  Proof.
    intros c l pa Q Hn Hu [Hok Hv] c1. split; [apply update_cache_unc; exact Hu|]. split; [exact Hok|].
    intro q. rewrite <- (Hv q). apply vpend_ext. intro r. subst c1. rewrite update_cache_val by exact Hu.
    apply upd_val_ext. exact Hn.
  Qed.

  Lemma vpend_cons_msg : forall c t m l Q,
    unc_none (p_unc pc) (k_val c) -> veq (vpend pc (k_val c) ((t, m) :: l)) (q_val Q) ->
    veq (vpend pc (k_val (apply_msg pc c m)) l) (q_val Q).
  Proof.
    intros c t m l Q Hu Hv q. rewrite <- (Hv q). cbn [vpend fold_left snd]. apply vpend_ext. apply apply_msg_val. exact Hu.
  Qed.

  Lemma base_set_ph : forall (w : world) ph pre,
    Base cf h (w_todo w) (w_seq w) (w_reps w) (ncalls w) pre ->
    Base cf h (w_todo (set_ph w ph)) (w_seq (set_ph w ph)) (w_reps (set_ph w ph)) (ncalls (set_ph w ph)) pre.
  Proof. intros. exact H. Qed.

  (* the end of init: the reply [p] was yielded by the join, [j'] may hold a later update *)
  Lemma finish_init : forall x pre st1 p pa j' pa',
    Base cf h (w_todo (cw x)) (w_seq (cw x)) (w_reps (cw x)) (ncalls (cw x)) pre ->
    unc_none (p_unc pc) (k_val (c_cache x)) -> none_vals (c_cache x) ->
    ncalls (cw x) = G -> w_reps (cw x) = G ->
    ss_ok (w_seq (cw x)) st1 -> qn_ok st1 -> ss_end st1 = sp_owner (sp_run cf pre) ->
    snap_rel p pa (spec_state pc pre) -> ss_pend st1 = pa' ->
    ((j' = JNone /\ pa' = pa) \/ (exists t m, j' = JA (CLeft m) t /\ pa = (t, m) :: pa')) ->
    CInv match p with
         | PSnap l =>
             let c1 := update_cache (p_unc pc) (c_cache x) l [] in
             let c2 := match j' with JA (CLeft m) _ => apply_msg pc c1 m | _ => c1 end in
             {| cw := with_stream x st1; c_stage := SKeep; c_cache := c2; c_ready := Some true; c_seen := c_seen x |}
         | _ => {| cw := with_stream x st1; c_stage := SFailed; c_cache := c_cache x; c_ready := Some false;
                   c_seen := c_seen x |}
         end.
  Proof.
    intros x pre st1 p pa j' pa' B Hu Hnv Hnc Hr Hok Hq He Hsr Hp Hj.
    assert (Hfail : snap_rel p pa (spec_state pc pre) -> (forall l, p <> PSnap l) ->
              CInv {| cw := with_stream x st1; c_stage := SFailed; c_cache := c_cache x; c_ready := Some false;
                      c_seen := c_seen x |}).
    { intros Hs Hnp. exists pre. unfold SInv. cbn [cw c_stage c_cache c_ready with_stream].
      split; [apply base_set_ph; exact B|]. split; [exact Hu|].
      split; [exact Hnv|]. split; [reflexivity|].
      split; [change (w_reps (with_stream x st1)) with (w_reps (cw x)); change (ncalls (with_stream x st1)) with (ncalls (cw x)); lia|].
      unfold snap_rel in Hs. destruct p; try exact Hs. exfalso. eapply Hnp. reflexivity. }
    destruct p as [|o|l|]; try (apply Hfail; [exact Hsr|intros l E; discriminate]).
    destruct (snap_populate (c_cache x) l pa _ Hnv Hu Hsr) as (Hu1 & Hqk & Hv1).
    exists pre. unfold SInv. cbn [cw c_stage c_cache c_ready with_stream].
    split; [apply base_set_ph; exact B|].
    destruct Hj as [[-> ->]|(t & m & -> & ->)].
    - split; [exact Hu1|]. exists st1. cbn [w_ph set_ph].
      change (ncalls (set_ph (cw x) (PhReady st1))) with (ncalls (cw x)).
      repeat (split; [first [assumption|reflexivity]|]). rewrite Hp. exact Hv1.
    - split; [apply apply_msg_unc; exact Hu1|]. exists st1. cbn [w_ph set_ph].
      change (ncalls (set_ph (cw x) (PhReady st1))) with (ncalls (cw x)).
      repeat (split; [first [assumption|reflexivity]|]). rewrite Hp. eapply vpend_cons_msg; [exact Hu1|exact Hv1].
  Qed.

  Lemma qn_ok_iff : forall st st', (ss_qn st' = None <-> ss_qn st = None) -> qn_ok st -> qn_ok st'.
  Proof. intros st st' H. unfold qn_ok. destruct (p_dest pc); tauto. Qed.

  (* where the head of the pending updates lies relative to the reply *)
  Lemma split_head_le : forall (pb pa : queue sigm) tr t m l,
    pb ++ pa = (t, m) :: l -> all_lt tr pb -> all_gt tr pa -> t <= tr ->
    exists pb', pb = (t, m) :: pb' /\ l = pb' ++ pa.
  Proof.
    intros pb pa tr t m l E Hb Ha Hle. destruct pb as [|e pb'].
    - cbn in E. subst pa. inversion Ha as [|? ? Hx _]; subst. cbn in Hx. lia.
    - cbn in E. inversion E; subst. eauto.
  Qed.

  Lemma split_head_gt : forall (pb pa : queue sigm) tr t m l,
    pb ++ pa = (t, m) :: l -> all_lt tr pb -> all_gt tr pa -> tr < t ->
    pb = [] /\ pa = (t, m) :: l.
  Proof.
    intros pb pa tr t m l E Hb Ha Hlt. destruct pb as [|e pb'].
    - cbn in E. split; [reflexivity|exact E].
    - cbn in E. inversion E; subst. inversion Hb as [|? ? Hx _]; subst. cbn in Hx. lia.
  Qed.

  (* ---- the caching task makes a step *)
  Lemma task_inv : forall x, CInv x -> CInv (task_step pc x).
  Proof.
    intros x (pre & B & Hu & S). unfold task_step in *. unfold SInv in S.
    destruct (c_stage x) as [|c j fut| |] eqn:Estage.
    - (* the stream is being created *)
      destruct S as (P & Hnv & Hrd). fold cf.
      destruct (w_ph (cw x)) as [|c qr|c j qn fut|c src qn qr|st| |] eqn:Eph.
      all: try (
        assert (HC : CInv1 cf h (client_step cf (cw x)) pre)
          by (apply (client_pinv cf h Hown Hcon); split; assumption);
        destruct HC as [B' P']; exists pre; unfold SInv; cbn [cw set_cw c_stage c_cache c_ready]; rewrite Estage;
        split; [exact B'|]; split; [exact Hu|]; split; [exact P'|]; split; assumption).
      + (* the stream exists: GetAll *)
        unfold PInv in P. rewrite Eph in P. destruct P as (Hr & Hn & Hok & _ & Hq & _ & He).
        exists pre. unfold SInv. cbn [cw c_stage c_cache c_ready call w_todo w_seq w_reps w_ph].
        rewrite !ncalls_call.
        split; [eapply Base_calls; [|exact B]; lia|]. split; [exact Hu|].
        exists st. split; [reflexivity|]. change (c_dest cf) with (p_dest pc) in Hn.
        split; [unfold G; lia|]. split; [unfold G; lia|]. split; [exact Hok|]. split; [exact Hq|].
        split; [exact He|]. split; [exact Hnv|]. split; [exact Hrd|]. left. repeat split; [lia].
      + (* the creation failed *)
        unfold PInv in P. rewrite Eph in P. destruct P as (_ & Hr & Hn).
        exists pre. unfold SInv. cbn [cw c_stage c_cache c_ready]. split; [exact B|]. split; [exact Hu|].
        split; [exact Hnv|]. split; [reflexivity|]. split; [exact Hr|].
        apply q_before. fold cf. rewrite (b_reps _ _ _ _ _ _ _ B), <- G_getall. unfold G.
        change (c_dest cf) with (p_dest pc) in Hn. lia.
      + unfold PInv in P. rewrite Eph in P. contradiction.
    - (* init: the join of the updates and the GetAll reply *)
      destruct S as (st & Eph & Hc & Hnc & Hok & Hq & He & Hnv & Hrd & Hcase). subst c. rewrite Eph in *.
      destruct Hcase as [(Hr & Hj & Hf)|(Hr & tr & p & pb & pa & Hjf & Hpend & Hb & Hga & Htr & Hsr)].
      + (* the reply has not arrived: discard *)
        subst j fut. rewrite init_poll_waiting.
        destruct (ssp st None) as [r st1] eqn:Essp.
        destruct (ssp_spec _ _ _ _ _ Hok Essp) as (Hok1 & Hqn1 & Hps & He1).
        assert (Hstay : CInv {| cw := with_stream x st1; c_stage := SInit G JNone (Some []); c_cache := c_cache x;
                                c_ready := c_ready x; c_seen := c_seen x |}).
        { exists pre. unfold SInv. cbn [cw c_stage c_cache c_ready with_stream].
          split; [apply base_set_ph; exact B|]. split; [exact Hu|]. exists st1. cbn [w_ph set_ph].
          change (ncalls (set_ph (cw x) (PhReady st1))) with (ncalls (cw x)).
          split; [reflexivity|]. split; [reflexivity|]. split; [exact Hnc|]. split; [exact Hok1|].
          split; [exact (qn_ok_iff _ _ Hqn1 Hq)|]. split; [rewrite He1; exact He|]. split; [exact Hnv|].
          split; [exact Hrd|]. left. repeat split; assumption. }
        destruct r as [m t| | |]; cbn [pspec] in Hps; try exact Hstay. contradiction.
      + (* the reply has arrived *)
        assert (Hdiscard : forall st1,
                   ss_ok (w_seq (cw x)) st1 -> (ss_qn st1 = None <-> ss_qn st = None) -> ss_end st1 = ss_end st ->
                   forall t m, ss_pend st = (t, m) :: ss_pend st1 -> t <= tr ->
                   CInv {| cw := with_stream x st1; c_stage := SInit G (JB (CRight p) tr) None; c_cache := c_cache x;
                           c_ready := c_ready x; c_seen := c_seen x |}).
        { intros st1 Hok1 Hqn1 He1 t m Hp1 Hle.
          rewrite Hpend in Hp1. destruct (split_head_le _ _ _ _ _ _ Hp1 Hb Hga Hle) as (pb' & -> & Hl).
          exists pre. unfold SInv. cbn [cw c_stage c_cache c_ready with_stream].
          split; [apply base_set_ph; exact B|]. split; [exact Hu|]. exists st1. cbn [w_ph set_ph].
          change (ncalls (set_ph (cw x) (PhReady st1))) with (ncalls (cw x)).
          split; [reflexivity|]. split; [reflexivity|]. split; [exact Hnc|]. split; [exact Hok1|].
          split; [exact (qn_ok_iff _ _ Hqn1 Hq)|]. split; [rewrite He1; exact He|]. split; [exact Hnv|].
          split; [exact Hrd|]. right. split; [exact Hr|]. exists tr, p, pb', pa.
          split; [right; split; reflexivity|]. split; [exact Hl|]. split; [inversion Hb; assumption|].
          split; [exact Hga|]. split; [exact Htr|exact Hsr]. }
        assert (Hfinish : forall st1 j' pa',
                   ss_ok (w_seq (cw x)) st1 -> (ss_qn st1 = None <-> ss_qn st = None) -> ss_end st1 = ss_end st ->
                   ss_pend st1 = pa' ->
                   ((j' = JNone /\ pa' = pa) \/ (exists t m, j' = JA (CLeft m) t /\ pa = (t, m) :: pa')) ->
                   CInv match p with
                        | PSnap l =>
                            let c1 := update_cache (p_unc pc) (c_cache x) l [] in
                            let c2 := match j' with JA (CLeft m) _ => apply_msg pc c1 m | _ => c1 end in
                            {| cw := with_stream x st1; c_stage := SKeep; c_cache := c2; c_ready := Some true;
                               c_seen := c_seen x |}
                        | _ => {| cw := with_stream x st1; c_stage := SFailed; c_cache := c_cache x;
                                  c_ready := Some false; c_seen := c_seen x |}
                        end).
        { intros st1 j' pa' Hok1 Hqn1 He1 Hp1 Hj'.
          apply (finish_init x pre st1 p pa j' pa' B Hu Hnv Hnc Hr Hok1 (qn_ok_iff _ _ Hqn1 Hq)); auto.
          rewrite He1. exact He. }
        destruct Hjf as [(Hj & Hf)|(Hj & Hf)]; subst j fut.
        * (* the reply is still in its future *)
          destruct (ssp st None) as [r st1] eqn:Essp.
          destruct (ssp_spec _ _ _ _ _ Hok Essp) as (Hok1 & Hqn1 & Hps & He1).
          destruct r as [m t| | |]; cbn [pspec] in Hps.
          -- rewrite (init_poll_reply_item _ _ _ _ _ _ _ Essp).
             destruct (t <=? tr) eqn:Ecmp.
             ++ apply N.leb_le in Ecmp. exact (Hdiscard st1 Hok1 Hqn1 He1 t m Hps Ecmp).
             ++ apply N.leb_gt in Ecmp. rewrite Hpend in Hps.
                destruct (split_head_gt _ _ _ _ _ _ Hps Hb Hga Ecmp) as [-> Hpa].
                specialize (Hfinish st1 (JA (CLeft m) t) (ss_pend st1) Hok1 Hqn1 He1 eq_refl
                              (or_intror (ex_intro _ t (ex_intro _ m (conj eq_refl Hpa))))).
                destruct p; exact Hfinish.
          -- destruct Hps as (_ & Hp0 & Hp1).
             rewrite (init_poll_reply_pending _ _ _ _ _ Essp).
             destruct (ssp st1 (Some tr)) as [r2 st2] eqn:Essp2.
             destruct (ssp_spec _ _ _ _ _ Hok1 Essp2) as (Hok2 & Hqn2 & Hps2 & He2).
             rewrite Hp1 in Hps2.
             destruct r2 as [m t| | |]; cbn [pspec] in Hps2.
             ++ discriminate.
             ++ destruct Hps2 as (Hx & _). discriminate.
             ++ destruct Hps2 as (Hp2 & _).
                assert (pb = [] /\ pa = []) as [-> ->].
                { rewrite Hp0 in Hpend. destruct pb; [split; [reflexivity|]|discriminate]. cbn in Hpend. congruence. }
                assert (Hqn' : ss_qn st2 = None <-> ss_qn st = None) by tauto.
                assert (He' : ss_end st2 = ss_end st) by congruence.
                specialize (Hfinish st2 JNone [] Hok2 Hqn' He' Hp2 (or_introl (conj eq_refl eq_refl))).
                destruct p; exact Hfinish.
             ++ contradiction.
          -- destruct Hps as (_ & b & Hb0 & _). discriminate.
          -- contradiction.
        * (* the reply is buffered in the join *)
          rewrite init_poll_buffered.
          destruct (ssp st (Some tr)) as [r st1] eqn:Essp.
          destruct (ssp_spec _ _ _ _ _ Hok Essp) as (Hok1 & Hqn1 & Hps & He1).
          destruct r as [m t| | |]; cbn [pspec] in Hps.
          -- destruct (t <=? tr) eqn:Ecmp.
             ++ apply N.leb_le in Ecmp. exact (Hdiscard st1 Hok1 Hqn1 He1 t m Hps Ecmp).
             ++ apply N.leb_gt in Ecmp. rewrite Hpend in Hps.
                destruct (split_head_gt _ _ _ _ _ _ Hps Hb Hga Ecmp) as [-> Hpa].
                specialize (Hfinish st1 (JA (CLeft m) t) (ss_pend st1) Hok1 Hqn1 He1 eq_refl
                              (or_intror (ex_intro _ t (ex_intro _ m (conj eq_refl Hpa))))).
                destruct p; exact Hfinish.
          -- destruct Hps as (Hx & _). discriminate.
          -- destruct Hps as (Hp1 & b & Hb0 & Hh). inversion Hb0; subst b.
             assert (pb = []).
             { destruct pb as [|[t0 m0] pb']; [reflexivity|]. rewrite Hpend in Hh.
               specialize (Hh t0 m0 _ eq_refl). inversion Hb as [|? ? Hx _]; subst. cbn in Hx. lia. }
             subst pb. cbn [app] in Hpend.
             assert (Hp1' : ss_pend st1 = pa) by congruence.
             specialize (Hfinish st1 JNone pa Hok1 Hqn1 He1 Hp1' (or_introl (conj eq_refl eq_refl))).
             destruct p; exact Hfinish.
          -- contradiction.
    - (* keep_updated *)
      destruct S as (st & Eph & Hnc & Hr & Hok & Hq & He & Hrd & Hqk & Hv). rewrite Eph.
      destruct (ssp st None) as [r st1] eqn:Essp.
      destruct (ssp_spec _ _ _ _ _ Hok Essp) as (Hok1 & Hqn1 & Hps & He1).
      destruct r as [m t| | |]; cbn [pspec] in Hps.
      + exists pre. unfold SInv. cbn [cw c_stage c_cache c_ready with_stream].
        split; [apply base_set_ph; exact B|]. split; [apply apply_msg_unc; exact Hu|]. exists st1. cbn [w_ph set_ph].
        change (ncalls (set_ph (cw x) (PhReady st1))) with (ncalls (cw x)).
        split; [reflexivity|]. split; [exact Hnc|]. split; [exact Hr|]. split; [exact Hok1|].
        split; [exact (qn_ok_iff _ _ Hqn1 Hq)|]. split; [rewrite He1; exact He|]. split; [exact Hrd|].
        split; [exact Hqk|]. rewrite Hps in Hv. eapply vpend_cons_msg; [exact Hu|exact Hv].
      + destruct Hps as (_ & Hp0 & Hp1).
        exists pre. unfold SInv. cbn [cw set_cw c_stage c_cache c_ready with_stream]. rewrite Estage.
        split; [apply base_set_ph; exact B|]. split; [exact Hu|]. exists st1. cbn [w_ph set_ph].
        change (ncalls (set_ph (cw x) (PhReady st1))) with (ncalls (cw x)).
        split; [reflexivity|]. split; [exact Hnc|]. split; [exact Hr|]. split; [exact Hok1|].
        split; [exact (qn_ok_iff _ _ Hqn1 Hq)|]. split; [rewrite He1; exact He|]. split; [exact Hrd|].
        split; [exact Hqk|]. rewrite Hp1. rewrite Hp0 in Hv. exact Hv.
      + destruct Hps as (_ & b & Hb0 & _). discriminate.
      + contradiction.
    - (* failed: the task has ended *)
      exists pre. unfold SInv. rewrite Estage. split; [exact B|]. split; [exact Hu|exact S].
  Qed.

  (* ---- the consumer: property streams only touch the listeners *)
  Lemma cinv_same_vals : forall x c seen,
    CInv x -> k_val c = k_val (c_cache x) ->
    CInv {| cw := cw x; c_stage := c_stage x; c_cache := c; c_ready := c_ready x; c_seen := seen |}.
  Proof.
    intros x c seen (pre & B & Hu & S) Hk. exists pre. unfold SInv, none_vals in *.
    cbn [cw c_stage c_cache c_ready]. rewrite Hk. split; [exact B|]. split; [exact Hu|exact S].
  Qed.

  Lemma add_stream_val : forall c p, k_val (add_stream c p) = k_val c.
  Proof. intros c p. unfold add_stream. destruct (k_has c p); reflexivity. Qed.

  Lemma cstep_inv : forall x a, CInv x -> CInv (cstep pc x a).
  Proof.
    intros x a Hi. destruct a as [| | |p]; cbn [cstep] in *.
    - destruct (ctick pc x) as [x'|] eqn:E; [eapply ctick_inv; eassumption|exact Hi].
    - apply task_inv; assumption.
    - unfold with_cache. apply cinv_same_vals; [exact Hi|].
      unfold STREAM_PROPS. cbn [fold_left]. rewrite !add_stream_val. reflexivity.
    - unfold poll_stream. destruct (k_has (c_cache x) p && k_note (c_cache x) p); [|exact Hi].
      apply cinv_same_vals; [exact Hi|reflexivity].
  Qed.

  Lemma cinit_inv : CInv (init_cworld h).
  Proof.
    exists []. split; [exact (Base_init cf h Hown Hcon)|]. split; [intros p _; reflexivity|].
    unfold SInv. cbn. repeat split; reflexivity.
  Qed.
End CRun.

Lemma crun_inv : forall pc h,
  stamped h = true ->
  (c_dest (scfg pc) = DWell -> owners_ok_from 0 h = true) ->
  (c_dest (scfg pc) = DWell -> consistent_from 0 None h = true) ->
  forall sched x, CInv pc h x -> CInv pc h (fold_left (cstep pc) sched x).
Proof.
  intros pc h Hst Hown Hcon. induction sched as [|a sched IH]; intros x Hi; [exact Hi|].
  cbn [fold_left] in *. apply IH. apply cstep_inv; assumption.
Qed.

(* ---------------------------------------------------------------- the theorems *)
Theorem cache_full : forall pc h sched,
  bus_history (scfg pc) h = true ->
  let x := crun pc h sched in
  (c_ready x <> Some true -> forall p, cached x p = None) /\
  (caught_up x -> forall p, cached x p = spec_cache pc (received x h) p) /\
  (c_ready x = Some true -> spec_ready pc (received x h) = Some true).
Proof.
  intros pc h sched Hb x.
  destruct (bus_history_parts _ _ Hb) as (Hst & _ & Hown & Hcon).
  assert (Hi : CInv pc h x).
  { apply (crun_inv pc h Hst Hown Hcon). apply cinit_inv; assumption. }
  destruct Hi as (pre & B & Hu & S).
  assert (Hpre : received x h = pre).
  { unfold received. rewrite (b_split _ _ _ _ _ _ _ B), <- (b_len _ _ _ _ _ _ _ B), Nnat.Nat2N.id.
    rewrite firstn_app, firstn_all, Nat.sub_diag. cbn [firstn]. apply app_nil_r. }
  rewrite Hpre. unfold SInv, caught_up, cached, none_vals in *.
  destruct (c_stage x) as [|c j fut| |].
  - destruct S as (_ & Hnv & Hr). split; [intros _; exact Hnv|]. split; [contradiction|congruence].
  - destruct S as (st & _ & _ & _ & _ & _ & _ & Hnv & Hr & _).
    split; [intros _; exact Hnv|]. split; [contradiction|congruence].
  - destruct S as (st & Eph & _ & _ & Hok & _ & _ & Hr & Hqk & Hv).
    split; [congruence|]. split.
    + rewrite Eph. intros Hc p. destruct (ssp st None) as [r st1] eqn:Essp. cbn [fst] in Hc. subst r.
      destruct (ssp_spec _ _ _ _ _ Hok Essp) as (_ & _ & Hps & _). destruct Hps as (_ & Hp0 & _).
      rewrite Hp0 in Hv. exact (Hv p).
    + intros _. unfold spec_ready. rewrite Hqk. reflexivity.
  - destruct S as (Hnv & Hr & _ & Hqk & Hv).
    split; [intros _; exact Hnv|]. split; [|congruence].
    intros _ p. unfold spec_cache. rewrite Hnv, Hv. reflexivity.
Qed.

(* a property marked uncached never has a cached value — under every schedule, for every history *)
Theorem uncached_ignored : forall pc h sched p,
  mem p (p_unc pc) = true -> cached (crun pc h sched) p = None.
Proof.
  intros pc h sched p Hp. unfold crun.
  assert (G : forall l x, unc_none (p_unc pc) (k_val (c_cache x)) ->
                unc_none (p_unc pc) (k_val (c_cache (fold_left (cstep pc) l x)))).
  { induction l as [|a l IH]; intros x Hx; [exact Hx|]. cbn [fold_left]. apply IH.
    destruct a as [| | |q]; cbn [cstep].
    - unfold ctick. destruct (tick (scfg pc) (cw x)); [|exact Hx].
      destruct (w_todo (cw x)) as [|[s|r0] r]; try exact Hx. destruct (c_stage x) as [|c j [qr|]| |]; exact Hx.
    - unfold task_step. destruct (c_stage x) as [|c j fut| |]; try exact Hx.
      + destruct (w_ph (cw x)); exact Hx.
      + destruct (w_ph (cw x)); try exact Hx.
        destruct (init_poll c j st fut) as [[[r j'] st'] fut'].
        destruct r as [[m|q] t| | |]; try exact Hx. destruct q; try exact Hx. cbn [c_cache].
        destruct j' as [|[m|q] t'| | | |]; try (apply update_cache_unc; exact Hx).
        apply apply_msg_unc. apply update_cache_unc. exact Hx.
      + destruct (w_ph (cw x)); try exact Hx. destruct (ssp st None) as [[m t| | |] st']; try exact Hx.
        cbn [c_cache]. apply apply_msg_unc. exact Hx.
    - unfold with_cache, STREAM_PROPS. cbn [c_cache fold_left]. rewrite !add_stream_val. exact Hx.
    - unfold poll_stream. destruct (k_has (c_cache x) q && k_note (c_cache x) q); exact Hx. }
  apply (G sched (init_cworld h)); [|exact Hp]. intros q _. reflexivity.
Qed.
