(* C31/Proofs.v — under every schedule the cache holds what C31/Spec.v implies for the messages received and
   processed so far; uncached names never hold a value; a silent property stream has reported the cached value. *)
From Coq Require Import List NArith Bool Lia.
Import ListNotations.
From ZV Require Import Base.Bytes C32.Model C32.Spec C32.Facts C32.Proofs C31.Model C31.Spec C31.Facts.
Local Open Scope N_scope.

(* ---------------------------------------------------------------- the specification, prefix by prefix *)
Section CSpec.
  Variable pc : pcfg.
  Let cf := scfg pc.

  Lemma spec_state_snoc : forall pre m, spec_state pc (pre ++ [m]) = q_step pc (spec_state pc pre) m.
  Proof. intros. unfold spec_state. rewrite fold_left_app. reflexivity. Qed.

  Lemma q_o_step : forall st m, q_o (q_step pc st m) = sp_step cf (q_o st) m.
  Proof.
    intros st m. unfold q_step. destruct m as [s|p]; [reflexivity|].
    destruct (sp_rep (q_o st) + 1 =? GETALL (p_dest pc)); [destruct p|]; reflexivity.
  Qed.

  Lemma q_o_run : forall pre, q_o (spec_state pc pre) = sp_run cf pre.
  Proof.
    intros pre. induction pre as [|m pre IH] using rev_ind; [reflexivity|].
    rewrite spec_state_snoc, q_o_step, IH, sp_run_snoc. reflexivity.
  Qed.

  (* PropertiesChanged never looks like NameOwnerChanged: the forgery class of C32 does not exist here *)
  Lemma forgeable_props : forall h, forgeable cf h = false.
  Proof.
    intro h. unfold forgeable. induction h as [|m h IH]; [reflexivity|]. cbn [existsb]. rewrite IH, orb_false_r.
    destruct m as [s|p]; [|reflexivity]. unfold wanted, is_noc, cf, scfg. cbn [c_pi c_pm].
    destruct (s_iface s =? I_PROPS) eqn:E; [|rewrite andb_false_r; reflexivity].
    apply N.eqb_eq in E. rewrite E. cbn. rewrite andb_false_r. reflexivity.
  Qed.

  Lemma wanted_props : forall s, wanted cf s = props_signal s.
  Proof. reflexivity. Qed.

  (* before the snapshot nothing is cached, according to the specification *)
  Lemma q_before : forall pre, sp_rep (sp_run cf pre) < GETALL (p_dest pc) ->
    q_ok (spec_state pc pre) = false /\ forall p, q_val (spec_state pc pre) p = None.
  Proof.
    intro pre. induction pre as [|m pre IH] using rev_ind; intro H; [split; reflexivity|].
    rewrite sp_run_snoc in H. rewrite spec_state_snoc.
    assert (Hlt : sp_rep (sp_run cf pre) < GETALL (p_dest pc)).
    { destruct m as [s|p]; [rewrite sp_rep_snoc_sig in H; exact H|rewrite sp_rep_snoc_rep in H; lia]. }
    destruct (IH Hlt) as [Hok Hv]. unfold q_step. rewrite q_o_run.
    destruct m as [s|p].
    - cbn [q_ok q_val]. rewrite Hok. cbn [andb]. split; [reflexivity|assumption].
    - rewrite sp_rep_snoc_rep in H.
      destruct (sp_rep (sp_run cf pre) + 1 =? GETALL (p_dest pc)) eqn:E; [apply N.eqb_eq in E; lia|].
      cbn [q_ok q_val]. split; assumption.
  Qed.

  Lemma q_step_sig : forall Q s,
    q_ok (q_step pc Q (WSig s)) = q_ok Q /\
    q_val (q_step pc Q (WSig s)) =
      (if q_ok Q && props_signal s && from_owner (q_o Q) s then vapply pc (q_val Q) s else q_val Q).
  Proof.
    intros Q s. unfold q_step, vapply. cbn [q_ok q_val]. split; [reflexivity|].
    destruct (q_ok Q && props_signal s && from_owner (q_o Q) s); [|reflexivity].
    destruct (s_body s); reflexivity.
  Qed.
End CSpec.

(* ---------------------------------------------------------------- the SignalStream as seen by the cache task *)
Lemma ssp_spec : forall n st before r st',
  ss_ok n st -> ssp st before = (r, st') ->
  ss_ok n st' /\ (ss_qn st' = None <-> ss_qn st = None) /\
  pspec (ss_pend st) (ss_pend st') before r /\ ss_end st' = ss_end st.
Proof.
  intros n st before r st' (Hwf & Hso & Hle) H. unfold ssp in H.
  destruct (ss_poll_total st before Hwf Hso) as (r0 & st0 & E & Hwf' & Hp & He & k & Hk).
  rewrite E in H. inversion H; subst r0 st0. split; [|split; [|split]].
  - split; [exact Hwf'|]. rewrite Hk. split; [apply sorted_skipn; exact Hso|apply Forall_skipn; exact Hle].
  - exact (ss_poll_qn _ _ _ _ _ E).
  - exact Hp.
  - exact He.
Qed.

Lemma pend_all_le : forall n st, ss_ok n st -> all_le n (ss_pend st).
Proof. intros n st (_ & _ & Hle). unfold ss_pend. apply frun_Forall. exact Hle. Qed.

(* ---- the join of PropertiesCache::init on the shapes its inputs can have *)
Lemma init_poll_waiting : forall c st,
  init_poll c JNone st (Some []) =
  match ssp st None with
  | (RItem m t, st1) => (RItem (CLeft m) t, JNone, st1, Some [])
  | (RPending, st1) => (RPending, JNone, st1, Some [])
  | (RNoneBefore, st1) => (RPending, JNone, st1, Some [])
  | (RTerm, st1) => (RPending, JOnlyB, st1, Some [])
  end.
Proof.
  intros c st. unfold init_poll, join_poll, update. cbn [take_split ordering].
  destruct (ssp st None) as [[m t| | |] st1]; cbn; reflexivity.
Qed.

Lemma init_poll_reply_item : forall c st tr p m t st1,
  ssp st None = (RItem m t, st1) ->
  init_poll c JNone st (Some [(tr, (c, p))]) =
  if t <=? tr then (RItem (CLeft m) t, JB (CRight p) tr, st1, None)
  else (RItem (CRight p) tr, JA (CLeft m) t, st1, None).
Proof.
  intros c st tr p m t st1 E. unfold init_poll, join_poll, update. cbn [take_split ordering].
  rewrite E. cbn. rewrite N.eqb_refl. cbn. destruct (t <=? tr); reflexivity.
Qed.

Lemma init_poll_reply_pending : forall c st tr p st1,
  ssp st None = (RPending, st1) ->
  init_poll c JNone st (Some [(tr, (c, p))]) =
  match ssp st1 (Some tr) with
  | (RItem m t, st2) => if t <=? tr then (RItem (CLeft m) t, JB (CRight p) tr, st2, None)
                        else (RItem (CRight p) tr, JA (CLeft m) t, st2, None)
  | (RNoneBefore, st2) => (RItem (CRight p) tr, JNone, st2, None)
  | (RPending, st2) => (RPending, JB (CRight p) tr, st2, None)
  | (RTerm, st2) => (RItem (CRight p) tr, JOnlyB, st2, None)
  end.
Proof.
  intros c st tr p st1 E. unfold init_poll, join_poll, update. cbn [take_split ordering].
  rewrite E. cbn. rewrite N.eqb_refl. cbn.
  destruct (ssp st1 (Some tr)) as [[m t| | |] st2]; cbn; try reflexivity; try (destruct (t <=? tr); reflexivity).
Qed.

Lemma init_poll_buffered : forall c st tr p,
  init_poll c (JB (CRight p) tr) st None =
  match ssp st (Some tr) with
  | (RItem m t, st1) => if t <=? tr then (RItem (CLeft m) t, JB (CRight p) tr, st1, None)
                        else (RItem (CRight p) tr, JA (CLeft m) t, st1, None)
  | (RNoneBefore, st1) => (RItem (CRight p) tr, JNone, st1, None)
  | (RPending, st1) => (RPending, JB (CRight p) tr, st1, None)
  | (RTerm, st1) => (RItem (CRight p) tr, JOnlyB, st1, None)
  end.
Proof.
  intros c st tr p. unfold init_poll, join_poll, update. cbn [take_split ordering].
  destruct (ssp st (Some tr)) as [[m t| | |] st1]; cbn; try reflexivity; try (destruct (t <=? tr); reflexivity).
Qed.

(* ---------------------------------------------------------------- the invariant *)
Section CRun.
  Variable pc : pcfg.
  Variable h : list wmsg.
  Let cf := scfg pc.
  Hypothesis Hst : stamped h = true.
  Hypothesis Hown : c_dest cf = DWell -> owners_ok_from 0 h = true.
  Hypothesis Hcon : c_dest cf = DWell -> consistent_from 0 None h = true.

  Let Hfg : forgeable cf h = false := forgeable_props pc h.

  Definition G : N := creation (p_dest pc) + 1.

  Lemma G_getall : G = GETALL (p_dest pc).
  Proof. unfold G. destruct (p_dest pc); reflexivity. Qed.

  Definition qn_ok (st : sstream) : Prop :=
    match p_dest pc with DWell => ss_qn st <> None | DUnique _ => ss_qn st = None end.
  Definition none_vals (c : cache) : Prop := forall p, k_val c p = None.

  (* the snapshot [p] received at some point, and the updates [pa] received after it and not yet applied *)
  Definition snap_rel (p : payload) (pa : queue sigm) (Q : pst) : Prop :=
    match p with
    | PSnap l => q_ok Q = true /\ veq (vpend pc (upd_val (p_unc pc) (fun _ => None) l []) pa) (q_val Q)
    | _ => q_ok Q = false /\ forall q, q_val Q q = None
    end.

  Definition SInv (x : cworld) (pre : list wmsg) : Prop :=
    let w := cw x in
    let Q := spec_state pc pre in
    match c_stage x with
    | SNew => PInv cf w pre /\ none_vals (c_cache x) /\ c_ready x = None
    | SInit c j fut =>
        exists st, w_ph w = PhReady st /\ c = G /\ ncalls w = G /\ ss_ok (w_seq w) st /\ qn_ok st /\
          ss_end st = sp_owner (sp_run cf pre) /\ none_vals (c_cache x) /\ c_ready x = None /\
          ((w_reps w = creation (p_dest pc) /\ j = JNone /\ fut = Some []) \/
           (w_reps w = G /\ exists tr p pb pa,
              ((j = JNone /\ fut = Some [(tr, (G, p))]) \/ (j = JB (CRight p) tr /\ fut = None)) /\
              ss_pend st = pb ++ pa /\ all_lt tr pb /\ all_gt tr pa /\ tr <= w_seq w /\ snap_rel p pa Q))
    | SKeep =>
        exists st, w_ph w = PhReady st /\ ncalls w = G /\ w_reps w = G /\ ss_ok (w_seq w) st /\ qn_ok st /\
          ss_end st = sp_owner (sp_run cf pre) /\ c_ready x = Some true /\ q_ok Q = true /\
          veq (vpend pc (k_val (c_cache x)) (ss_pend st)) (q_val Q)
    | SFailed =>
        none_vals (c_cache x) /\ c_ready x = Some false /\ w_reps w = ncalls w /\
        q_ok Q = false /\ forall q, q_val Q q = None
    end.

  Definition CInv (x : cworld) : Prop :=
    exists pre, Base cf h (w_todo (cw x)) (w_seq (cw x)) (w_reps (cw x)) (ncalls (cw x)) pre /\
                unc_none (p_unc pc) (k_val (c_cache x)) /\ SInv x pre.

  (* ---- a signal arrives while the task owns the stream *)
  Lemma stream_sig : forall st n s pre rest reps nc,
    Base cf h (WSig s :: rest) n reps nc pre ->
    ss_ok n st -> qn_ok st -> creation (p_dest pc) <= reps ->
    ss_end st = sp_owner (sp_run cf pre) ->
    let st' := ss_deliver (sig_rule cf) (n + 1) s st in
    let Q := spec_state pc pre in
    let hit := props_signal s && from_owner (sp_run cf pre) s in
    ss_ok (n + 1) st' /\ qn_ok st' /\
    ss_pend st' = ss_pend st ++ (if hit then [(n + 1, s)] else []) /\
    ss_end st' = sp_owner (sp_run cf (pre ++ [WSig s])) /\
    q_ok (spec_state pc (pre ++ [WSig s])) = q_ok Q /\
    q_val (spec_state pc (pre ++ [WSig s])) = (if q_ok Q && hit then vapply pc (q_val Q) s else q_val Q).
  Proof.
    intros st n s pre rest reps nc B Hok Hq Hreps He st' Q hit.
    destruct (in_hist cf h Hst Hfg _ _ _ _ _ s rest B eq_refl) as [Hsnd Hnoc].
    assert (Hq' : match c_dest cf with
                  | DWell => ss_qn st <> None /\ LOOKUP <= sp_rep (sp_run cf pre)
                  | DUnique _ => ss_qn st = None
                  end).
    { unfold qn_ok in Hq. change (c_dest cf) with (p_dest pc). destruct (p_dest pc) eqn:Hd; [exact Hq|].
      split; [exact Hq|]. rewrite (b_reps _ _ _ _ _ _ _ B). cbn in Hreps. unfold LOOKUP. lia. }
    destruct (ready_sig cf h Hown Hcon st n s (sp_run cf pre) 0 Hok (N.le_0_l n) Hq' He
                (b_nd _ _ _ _ _ _ _ B) (base_new_ok cf h Hown Hcon _ _ _ _ _ _ B)
                (fun u Hu => sp_owner_unique cf u pre Hu) Hsnd Hnoc) as (Hok' & Hqn' & Hp' & He').
    assert (H0 : (0 <? n + 1) = true) by (apply N.ltb_lt; lia).
    rewrite H0, andb_true_r in Hp'. change (wanted cf s) with (props_signal s) in Hp'.
    split; [exact Hok'|]. split; [exact Hqn'|]. split; [exact Hp'|].
    split; [rewrite sp_run_snoc; exact He'|].
    rewrite spec_state_snoc. destruct (q_step_sig pc (spec_state pc pre) s) as [H1 H2].
    split; [exact H1|]. rewrite H2, q_o_run. subst hit Q.
    destruct (q_ok (spec_state pc pre)); cbn [andb]; reflexivity.
  Qed.

  Lemma owner_rep_keep : forall pre p, sp_rep (sp_run cf pre) + 1 = G ->
    sp_owner (sp_run cf (pre ++ [WRep p])) = sp_owner (sp_run cf pre).
  Proof.
    intros pre p Hr. rewrite sp_run_snoc. unfold sp_step. change (c_dest cf) with (p_dest pc).
    unfold G in Hr. destruct (p_dest pc); [reflexivity|]. cbn [sp_owner]. cbn in Hr.
    destruct (sp_rep (sp_run cf pre) + 1 =? LOOKUP) eqn:E; [apply N.eqb_eq in E; unfold LOOKUP in E; lia|reflexivity].
  Qed.

  Lemma snap_rel_rep : forall pre p, sp_rep (sp_run cf pre) + 1 = G ->
    snap_rel p [] (spec_state pc (pre ++ [WRep p])).
  Proof.
    intros pre p Hr. rewrite spec_state_snoc. unfold q_step. rewrite q_o_run. fold cf. rewrite Hr, G_getall, N.eqb_refl.
    assert (Hlt : sp_rep (sp_run cf pre) < GETALL (p_dest pc)) by (rewrite <- G_getall; lia).
    destruct (q_before pc pre Hlt) as [Hok Hv].
    unfold snap_rel. destruct p; cbn [q_ok q_val]; try (split; [reflexivity|exact Hv]).
    split; [reflexivity|]. intro q. reflexivity.
  Qed.

  (* ---- the socket reader *)
  Lemma ctick_inv : forall x x', CInv x -> ctick pc x = Some x' -> CInv x'.
  Proof.
    intros x x' (pre & B & Hu & S) H. unfold ctick in H. fold cf in H.
    destruct (tick cf (cw x)) as [w'|] eqn:Et; [|discriminate]. unfold tick in Et.
    destruct (w_todo (cw x)) as [|[s|p] rest] eqn:Etodo.
    - (* nothing to read *)
      inversion Et; subst w'. assert (x' = set_cw x (cw x)) by (destruct (c_stage x); inversion H; reflexivity).
      subst x'. exists pre. unfold SInv in *. cbn [cw set_cw c_stage c_cache c_ready]. rewrite Etodo.
      split; [exact B|]. split; [exact Hu|exact S].
    - (* a signal *)
      inversion Et; subst w'. clear Et.
      assert (x' = set_cw x {| w_todo := rest; w_seq := w_seq (cw x) + 1; w_reps := w_reps (cw x); w_log := w_log (cw x);
                               w_ph := deliver_sig cf (w_seq (cw x) + 1) s (w_ph (cw x)); w_out := w_out (cw x);
                               w_start := w_start (cw x); w_lost := w_lost (cw x) |})
        by (destruct (c_stage x); inversion H; reflexivity).
      subst x'. clear H. exists (pre ++ [WSig s]).
      pose proof (Base_sig cf h Hown Hcon _ _ _ _ _ _ B) as B'.
      unfold SInv in *. cbn [cw set_cw c_stage c_cache c_ready w_todo w_seq w_reps w_ph].
      match goal with |- context [ncalls ?w] => change (ncalls w) with (ncalls (cw x)) end.
      split; [exact B'|]. split; [exact Hu|].
      destruct (c_stage x) as [|c j fut| |] eqn:Estage.
      + destruct S as (P & Hn & Hr). rewrite <- Etodo in B.
        destruct (tick_sig_inv cf h Hst Hfg Hown Hcon (cw x) pre s rest Etodo B P) as [_ P'].
        split; [exact P'|]. split; assumption.
      + destruct S as (st & Eph & Hc & Hnc & Hok & Hq & He & Hnv & Hrd & Hcase).
        assert (Hreps : creation (p_dest pc) <= w_reps (cw x)) by (destruct Hcase as [(E & _)|(E & _)]; unfold G in *; lia).
        destruct (stream_sig st _ s pre rest _ _ B Hok Hq Hreps He) as (Hok' & Hq' & Hp' & He' & Hqok & Hqv).
        rewrite Eph. cbn [deliver_sig]. exists (ss_deliver (sig_rule cf) (w_seq (cw x) + 1) s st).
        split; [reflexivity|]. repeat (split; [assumption|]).
        destruct Hcase as [Ha|(Hr & tr & p & pb & pa & Hjf & Hpend & Hb & Hga & Htr & Hsr)]; [left; exact Ha|].
        right. split; [exact Hr|].
        exists tr, p, pb, (pa ++ (if props_signal s && from_owner (sp_run cf pre) s then [(w_seq (cw x) + 1, s)] else [])).
        split; [exact Hjf|]. split; [rewrite Hp', Hpend, app_assoc; reflexivity|]. split; [exact Hb|].
        split; [apply Forall_app; split; [exact Hga|destruct (props_signal s && from_owner (sp_run cf pre) s); constructor; [cbn; lia|constructor]]|].
        split; [lia|].
        unfold snap_rel in *. destruct p; try (rewrite Hqok, Hqv; destruct Hsr as [Hs1 Hs2]; rewrite Hs1; cbn [andb]; split; [reflexivity|exact Hs2]).
        destruct Hsr as [Hs1 Hs2]. rewrite Hqok, Hqv, Hs1. cbn [andb]. split; [reflexivity|].
        destruct (props_signal s && from_owner (sp_run cf pre) s).
        * rewrite vpend_app. cbn [vpend fold_left snd]. apply vapply_ext. exact Hs2.
        * rewrite app_nil_r. exact Hs2.
      + destruct S as (st & Eph & Hnc & Hr & Hok & Hq & He & Hrd & Hqk & Hv).
        assert (Hreps : creation (p_dest pc) <= w_reps (cw x)) by (unfold G in *; lia).
        destruct (stream_sig st _ s pre rest _ _ B Hok Hq Hreps He) as (Hok' & Hq' & Hp' & He' & Hqok & Hqv).
        rewrite Eph. cbn [deliver_sig]. exists (ss_deliver (sig_rule cf) (w_seq (cw x) + 1) s st).
        split; [reflexivity|]. repeat (split; [assumption|]). split; [rewrite Hqok; exact Hqk|].
        rewrite Hp', Hqv, Hqk. cbn [andb].
        destruct (props_signal s && from_owner (sp_run cf pre) s).
        * rewrite vpend_app. cbn [vpend fold_left snd]. apply vapply_ext. exact Hv.
        * rewrite app_nil_r. exact Hv.
      + destruct S as (Hnv & Hrd & Hr & Hqk & Hv). repeat (split; [assumption|]).
        rewrite spec_state_snoc. destruct (q_step_sig pc (spec_state pc pre) s) as [H1 H2].
        rewrite H1, H2. split; [exact Hqk|]. rewrite Hqk. cbn [andb]. exact Hv.
    - (* a reply *)
      destruct (w_reps (cw x) <? ncalls (cw x)) eqn:Elt; [|discriminate]. apply N.ltb_lt in Elt.
      inversion Et; subst w'. clear Et.
      pose proof (Base_rep cf h Hown Hcon _ _ _ _ _ _ Elt B) as B'.
      unfold SInv in S.
      destruct (c_stage x) as [|c j fut| |] eqn:Estage.
      + (* the stream is being created *)
        inversion H; subst x'. clear H. exists (pre ++ [WRep p]).
        destruct S as (P & Hn & Hr). rewrite <- Etodo in B.
        destruct (tick_rep_inv cf h Hown Hcon (cw x) pre p rest Etodo Elt B P) as [_ P'].
        unfold SInv. cbn [cw set_cw c_stage c_cache c_ready w_todo w_seq w_reps w_ph]. rewrite Estage.
        match goal with |- context [ncalls ?w] => change (ncalls w) with (ncalls (cw x)) end.
        split; [exact B'|]. split; [exact Hu|]. split; [exact P'|]. split; assumption.
      + (* the GetAll reply *)
        destruct S as (st & Eph & Hc & Hnc & Hok & Hq & He & Hnv & Hrd & Hcase).
        destruct Hcase as [(Hr & Hj & Hf)|(Hr & _)]; [|lia]. subst j fut c.
        cbn [w_seq w_reps] in H. inversion H; subst x'. clear H. exists (pre ++ [WRep p]).
        unfold SInv. cbn [cw c_stage c_cache c_ready w_todo w_seq w_reps w_ph].
        match goal with |- context [ncalls ?w] => change (ncalls w) with (ncalls (cw x)) end.
        split; [exact B'|]. split; [exact Hu|].
        rewrite Eph. cbn [deliver_rep]. exists st. split; [reflexivity|]. split; [reflexivity|]. split; [exact Hnc|].
        destruct Hok as (Hwf & Hso & Hle).
        split; [split; [exact Hwf|split; [exact Hso|eapply all_le_mono; [|exact Hle]; lia]]|].
        split; [exact Hq|].
        assert (Hrg : sp_rep (sp_run cf pre) + 1 = G) by (rewrite (b_reps _ _ _ _ _ _ _ B); unfold G; lia).
        split; [rewrite (owner_rep_keep pre p Hrg); exact He|]. split; [exact Hnv|]. split; [exact Hrd|].
        right. split; [unfold G; lia|].
        exists (w_seq (cw x) + 1), p, (ss_pend st), [].
        split; [left; split; [reflexivity|]; unfold push; cbn [app]; do 4 f_equal; unfold G; lia|].
        split; [rewrite app_nil_r; reflexivity|].
        split; [apply all_le_lt_succ; apply pend_all_le; repeat split; assumption|].
        split; [constructor|]. split; [lia|]. apply snap_rel_rep. exact Hrg.
      + destruct S as (st & _ & Hnc & Hr & _). lia.
      + destruct S as (_ & _ & Hr & _). lia.
  Qed.
End CRun.
