(* C31/Streams.v — property change streams report the latest value; updates for other interfaces are ignored. *)
From Coq Require Import List NArith Bool Lia.
Import ListNotations.
From ZV Require Import Base.Bytes C32.Model C32.Spec C31.Model C31.Spec C31.Facts.
Local Open Scope N_scope.

(* ---------------------------------------------------------------- a silent stream has reported the cached value *)
Definition sinv (c : cache) (seen : list (N * option N)) : Prop :=
  (forall p, k_has c p = true -> k_note c p = false -> last_seen seen p = k_val c p) /\
  (forall p, k_has c p = false -> last_seen seen p = None).

Lemma sinv_set_val : forall c seen q v, sinv c seen -> sinv (set_val c q v) seen.
Proof.
  intros c seen q v [H1 H2]. split; intros p Hh; cbn [set_val k_has k_note k_val] in *.
  - intro Hn. destruct (p =? q) eqn:E.
    + rewrite Hh, orb_true_r in Hn. discriminate.
    + apply H1; assumption.
  - apply H2. exact Hh.
Qed.

Lemma sinv_update_cache : forall unc c seen ch inv, sinv c seen -> sinv (update_cache unc c ch inv) seen.
Proof.
  intros unc c seen ch inv H. unfold update_cache.
  assert (A : forall l c0, sinv c0 seen -> sinv (fold_left (inval1 unc) l c0) seen).
  { induction l as [|q l IH]; intros c0 H0; [exact H0|]. cbn [fold_left]. apply IH. unfold inval1.
    destruct (mem q unc); [exact H0|apply sinv_set_val; exact H0]. }
  assert (B : forall l c0, sinv c0 seen -> sinv (fold_left (change1 unc) l c0) seen).
  { induction l as [|q l IH]; intros c0 H0; [exact H0|]. cbn [fold_left]. apply IH. unfold change1.
    destruct (mem (fst q) unc); [exact H0|apply sinv_set_val; exact H0]. }
  apply B. apply A. exact H.
Qed.

Lemma sinv_apply_msg : forall pc c seen m, sinv c seen -> sinv (apply_msg pc c m) seen.
Proof.
  intros pc c seen m H. unfold apply_msg. destruct (s_body m); try exact H.
  destruct (ifc =? p_pi pc); [apply sinv_update_cache; exact H|exact H].
Qed.

Lemma sinv_add_stream : forall c seen p, sinv c seen -> sinv (add_stream c p) seen.
Proof.
  intros c seen p [H1 H2]. unfold add_stream. destruct (k_has c p) eqn:Eh; [split; assumption|].
  split; intros q Hq; cbn [k_has k_note k_val] in *.
  - intro Hn. destruct (q =? p) eqn:E.
    + apply N.eqb_eq in E. subst q. rewrite (H2 p Eh). destruct (k_val c p); [discriminate|reflexivity].
    + apply H1; assumption.
  - destruct (q =? p) eqn:E; [discriminate|]. apply H2. exact Hq.
Qed.

Lemma sinv_poll : forall x p, sinv (c_cache x) (c_seen x) ->
  sinv (c_cache (poll_stream x p)) (c_seen (poll_stream x p)).
Proof.
  intros x p [H1 H2]. unfold poll_stream.
  destruct (k_has (c_cache x) p && k_note (c_cache x) p) eqn:E; [|split; assumption].
  apply andb_true_iff in E. destruct E as [Eh En]. cbn [c_cache c_seen].
  split; intros q Hq; cbn [k_has k_note k_val] in *; unfold last_seen; cbn [find fst].
  - intro Hn. rewrite (N.eqb_sym p q). destruct (q =? p) eqn:E.
    + apply N.eqb_eq in E. subst q. reflexivity.
    + apply (H1 q Hq Hn).
  - rewrite (N.eqb_sym p q). destruct (q =? p) eqn:E; [apply N.eqb_eq in E; subst q; congruence|].
    apply (H2 q Hq).
Qed.

Lemma sinv_step : forall pc x a, sinv (c_cache x) (c_seen x) ->
  sinv (c_cache (cstep pc x a)) (c_seen (cstep pc x a)).
Proof.
  intros pc x a H. destruct a as [| | |p]; cbn [cstep].
  - unfold ctick. destruct (tick (scfg pc) (cw x)); [|exact H].
    destruct (w_todo (cw x)) as [|[s|r0] r]; try exact H. destruct (c_stage x) as [|c j [qr|]| |]; exact H.
  - unfold task_step. destruct (c_stage x) as [|c j fut| |]; try exact H.
    + destruct (w_ph (cw x)); exact H.
    + destruct (w_ph (cw x)); try exact H.
      destruct (init_poll c j st fut) as [[[r j'] st'] fut'].
      destruct r as [[m|q] t| | |]; try exact H. destruct q; try exact H. cbn [c_cache c_seen].
      destruct j' as [|[m|q] t'| | | |]; try (apply sinv_update_cache; exact H).
      apply sinv_apply_msg. apply sinv_update_cache. exact H.
    + destruct (w_ph (cw x)); try exact H. destruct (ssp st None) as [[m t| | |] st']; try exact H.
      cbn [c_cache c_seen]. apply sinv_apply_msg. exact H.
  - unfold with_cache, STREAM_PROPS. cbn [c_cache c_seen fold_left]. repeat apply sinv_add_stream. exact H.
  - apply sinv_poll. exact H.
Qed.

Theorem stream_latest : forall pc h sched p,
  let x := crun pc h sched in
  k_has (c_cache x) p = true -> k_note (c_cache x) p = false -> last_seen (c_seen x) p = cached x p.
Proof.
  intros pc h sched p x. subst x. unfold crun.
  assert (G : forall l y, sinv (c_cache y) (c_seen y) ->
                sinv (c_cache (fold_left (cstep pc) l y)) (c_seen (fold_left (cstep pc) l y))).
  { induction l as [|a l IH]; intros y Hy; [exact Hy|]. cbn [fold_left]. apply IH. apply sinv_step. exact Hy. }
  assert (H0 : sinv (c_cache (init_cworld h)) (c_seen (init_cworld h))) by (split; intros; reflexivity).
  destruct (G sched _ H0) as [H1 _]. exact (H1 p).
Qed.

(* every reported item is the value that was cached when the stream yielded it *)
Theorem stream_reports_cached : forall x p,
  k_has (c_cache x) p = true -> k_note (c_cache x) p = true ->
  c_seen (poll_stream x p) = (p, cached x p) :: c_seen x /\ k_note (c_cache (poll_stream x p)) p = false.
Proof.
  intros x p Hh Hn. unfold poll_stream, cached. rewrite Hh, Hn. cbn. rewrite N.eqb_refl. split; reflexivity.
Qed.

(* ---------------------------------------------------------------- other interfaces *)
(* the cache — values and listeners — is untouched by an update for another interface *)
Theorem other_iface_step : forall pc c m ifc ch inv,
  s_body m = BProps ifc ch inv -> ifc <> p_pi pc -> apply_msg pc c m = c.
Proof.
  intros pc c m ifc ch inv Hb Hi. unfold apply_msg. rewrite Hb.
  destruct (ifc =? p_pi pc) eqn:E; [apply N.eqb_eq in E; contradiction|reflexivity].
Qed.

Definition with_body (s : sigm) (b : body) : sigm :=
  {| s_sender := s_sender s; s_path := s_path s; s_iface := s_iface s; s_member := s_member s; s_body := b |}.

(* two histories that differ only in what PropertiesChanged signals say about OTHER interfaces *)
Definition other_iface_differ (pc : pcfg) (m m' : wmsg) : Prop :=
  m = m' \/
  exists s ifc ch inv ifc' ch' inv',
    m = WSig s /\ s_body s = BProps ifc ch inv /\ ifc <> p_pi pc /\ ifc' <> p_pi pc /\
    m' = WSig (with_body s (BProps ifc' ch' inv')).

Lemma driver_noc_props : forall s ifc ch inv, s_body s = BProps ifc ch inv -> driver_noc s = None.
Proof.
  intros s ifc ch inv H. unfold driver_noc. rewrite H.
  destruct (opt_eqb (s_sender s) (Some DRIVER) && (s_path s =? P_DRIVER) && (s_iface s =? I_DBUS) && (s_member s =? M_NOC));
    reflexivity.
Qed.

Lemma q_step_other : forall pc Q m m', other_iface_differ pc m m' -> q_step pc Q m' = q_step pc Q m.
Proof.
  intros pc Q m m' [->|(s & ifc & ch & inv & ifc' & ch' & inv' & -> & Hb & Hi & Hi' & ->)]; [reflexivity|].
  unfold q_step. unfold sp_step. destruct (c_dest (scfg pc)).
  - f_equal. unfold props_signal, from_owner, with_body. cbn [s_path s_iface s_member s_sender s_body]. rewrite Hb.
    destruct (ifc' =? p_pi pc) eqn:E1; [apply N.eqb_eq in E1; contradiction|].
    destruct (ifc =? p_pi pc) eqn:E2; [apply N.eqb_eq in E2; contradiction|].
    destruct (q_ok Q && _ && _); reflexivity.
  - rewrite (driver_noc_props s ifc ch inv Hb).
    rewrite (driver_noc_props (with_body s (BProps ifc' ch' inv')) ifc' ch' inv' eq_refl).
    f_equal. unfold props_signal, from_owner, with_body. cbn [s_path s_iface s_member s_sender s_body]. rewrite Hb.
    destruct (ifc' =? p_pi pc) eqn:E1; [apply N.eqb_eq in E1; contradiction|].
    destruct (ifc =? p_pi pc) eqn:E2; [apply N.eqb_eq in E2; contradiction|].
    destruct (q_ok Q && _ && _); reflexivity.
Qed.

Theorem other_iface_spec : forall pc h h',
  Forall2 (other_iface_differ pc) h h' -> forall p, spec_cache pc h' p = spec_cache pc h p.
Proof.
  intros pc h h' Hf p. unfold spec_cache, spec_state.
  assert (G : forall Q, fold_left (q_step pc) h' Q = fold_left (q_step pc) h Q).
  { induction Hf as [|m m' r r' Hm Hr IH]; intro Q; [reflexivity|]. cbn [fold_left].
    rewrite (q_step_other pc Q m m' Hm). apply IH. }
  rewrite G. reflexivity.
Qed.
