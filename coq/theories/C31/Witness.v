(* C31/Witness.v — concrete runs: the witness of the repaired finding and a non-trivial run that meets the
   hypotheses of the theorem. *)
From Coq Require Import List NArith Bool Lia.
Import ListNotations.
From ZV Require Import Base.Bytes C32.Model C32.Spec C32.Facts C32.Proofs C31.Model C31.Spec C31.Facts C31.Proofs.
Local Open Scope N_scope.

Definition upd (k : N) (ifc : N) (ch : list (N * N)) (inv : list N) : sigm :=
  {| s_sender := Some k; s_path := P_OBJ; s_iface := I_PROPS; s_member := M_PROPS; s_body := BProps ifc ch inv |}.
Definition drv (old new : option N) : sigm :=
  {| s_sender := Some DRIVER; s_path := P_DRIVER; s_iface := I_DBUS; s_member := M_NOC; s_body := BNoc NAME_W old new |}.

Definition pc_w : pcfg := {| p_dest := DWell; p_pi := 0; p_unc := [3] |}.

(* ---- the former known finding (C32's release class seen through the cache), repaired by 902c9069: the name is
        released right after the lookup answer and both are read before SignalStream::new runs again; the former
        owner's update no longer reaches the cache *)
Definition h_release : list wmsg :=
  [WRep PPlain; WRep (POwner 1); WSig (drv (Some 1) None); WRep PPlain; WRep (PSnap [(0, 5)]);
   WSig (upd 1 0 [(0, 7)] [])].
Definition sched_release : list caction :=
  [CTask; CTick; CTask; CTick; CTick; CTask; CTick; CTask; CTask; CTick; CTask; CTick; CTask; CTask].

Lemma repaired_history :
  bus_history (scfg pc_w) h_release = true /\
  let x := crun pc_w h_release sched_release in
  caught_up x /\ received x h_release = h_release /\
  cached x 0 = Some 5 /\ spec_cache pc_w h_release 0 = Some 5.
Proof. vm_compute. repeat split; reflexivity. Qed.

(* ---- non-vacuity *)
Definition h_clean : list wmsg :=
  [WRep PPlain; WRep (POwner 1); WRep PPlain;
   WSig (upd 1 0 [(0, 9)] []);                      (* before the snapshot: discarded *)
   WRep (PSnap [(0, 5); (1, 6); (3, 9)]);           (* P3 is uncached *)
   WSig (upd 1 0 [(0, 7)] [1]);                     (* P0 := 7, P1 invalidated *)
   WSig (upd 1 1 [(0, 8)] [0]);                     (* another interface *)
   WSig (upd 3 0 [(1, 8)] []);                      (* a stranger *)
   WSig (drv (Some 1) (Some 2));                    (* the name changes hands *)
   WSig (upd 2 0 [(2, 4); (3, 4)] []);              (* the new owner: P2 := 4 (P3 uncached) *)
   WSig (upd 1 0 [(0, 1)] [])].                     (* the former owner *)
Definition sched_clean : list caction :=
  CTask :: flat_map (fun _ => [CTick; CTask; CTask]) (seq 0 11) ++ [CStreams; CPollS 0; CPollS 1; CPollS 3; CTask].

Lemma clean_example :
  bus_history (scfg pc_w) h_clean = true /\
  let x := crun pc_w h_clean sched_clean in
  caught_up x /\ received x h_clean = h_clean /\ c_ready x = Some true /\
  map (cached x) [0; 1; 2; 3] = [Some 7; None; Some 4; None] /\
  map (spec_cache pc_w h_clean) [0; 1; 2; 3] = [Some 7; None; Some 4; None] /\
  c_seen x = [(0, Some 7)].
Proof. vm_compute. repeat split; reflexivity. Qed.
