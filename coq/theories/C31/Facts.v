(* C31/Facts.v — update_cache, pointwise; the two simple invariants of the cache (uncached names hold nothing;
   a silent property stream has reported the cached value). *)
From Coq Require Import List NArith Bool Lia.
Import ListNotations.
From ZV Require Import Base.Bytes C32.Model C32.Spec C31.Model C31.Spec.
Local Open Scope N_scope.

Lemma mem_eqb : forall p q l, (q =? p) = true -> mem q l = mem p l.
Proof. intros p q l H. apply N.eqb_eq in H. subst. reflexivity. Qed.

Lemma mem_snoc : forall p l q, mem p (l ++ [q]) = mem p l || (p =? q).
Proof. intros. unfold mem. rewrite existsb_app. cbn [existsb]. rewrite orb_false_r. reflexivity. Qed.

Lemma val_set : forall c q v p, k_val (set_val c q v) p = if p =? q then v else k_val c p.
Proof. reflexivity. Qed.

Lemma inval_fold_val : forall unc inv c p,
  k_val (fold_left (inval1 unc) inv c) p =
  if mem p unc then k_val c p else if mem p inv then None else k_val c p.
Proof.
  intros unc inv. induction inv as [|q inv IH] using rev_ind; intros c p.
  - cbn. destruct (mem p unc); reflexivity.
  - rewrite fold_left_app. cbn [fold_left]. unfold inval1 at 1. rewrite mem_snoc.
    destruct (mem q unc) eqn:Eq.
    + rewrite IH. destruct (mem p unc) eqn:Ep; [reflexivity|].
      destruct (p =? q) eqn:E; [apply N.eqb_eq in E; subst; congruence|]. rewrite orb_false_r. reflexivity.
    + rewrite val_set, IH. destruct (p =? q) eqn:E.
      * apply N.eqb_eq in E. subst. rewrite Eq, orb_true_r. reflexivity.
      * rewrite orb_false_r. reflexivity.
Qed.

Lemma last_val_snoc : forall p ch kv,
  last_val p (ch ++ [kv]) = if fst kv =? p then Some (snd kv) else last_val p ch.
Proof. intros. unfold last_val. rewrite fold_left_app. reflexivity. Qed.

Lemma change_fold_val : forall unc ch c p,
  k_val (fold_left (change1 unc) ch c) p =
  if mem p unc then k_val c p else match last_val p ch with Some v => Some v | None => k_val c p end.
Proof.
  intros unc ch. induction ch as [|[q v] ch IH] using rev_ind; intros c p.
  - cbn. destruct (mem p unc); reflexivity.
  - rewrite fold_left_app. cbn [fold_left]. unfold change1 at 1. cbn [fst snd]. rewrite last_val_snoc. cbn [fst snd].
    destruct (mem q unc) eqn:Eq.
    + rewrite IH. destruct (mem p unc) eqn:Ep; [reflexivity|].
      destruct (q =? p) eqn:E; [apply N.eqb_eq in E; subst; congruence|]. reflexivity.
    + rewrite val_set, IH. rewrite (N.eqb_sym p q). destruct (q =? p) eqn:E.
      * apply N.eqb_eq in E. subst. rewrite Eq. reflexivity.
      * reflexivity.
Qed.

(* the cache never holds a value for an uncached name *)
Definition unc_none (unc : list N) (v : N -> option N) : Prop := forall p, mem p unc = true -> v p = None.

Lemma update_cache_val : forall unc c ch inv p,
  unc_none unc (k_val c) ->
  k_val (update_cache unc c ch inv) p = upd_val unc (k_val c) ch inv p.
Proof.
  intros unc c ch inv p Hu. unfold update_cache, upd_val. rewrite change_fold_val, inval_fold_val.
  destruct (mem p unc) eqn:E; [apply Hu; exact E|]. destruct (last_val p ch); reflexivity.
Qed.

Lemma update_cache_unc : forall unc c ch inv, unc_none unc (k_val c) -> unc_none unc (k_val (update_cache unc c ch inv)).
Proof.
  intros unc c ch inv Hu p Hp. unfold update_cache. rewrite change_fold_val, inval_fold_val, Hp. apply Hu. exact Hp.
Qed.

Lemma update_cache_has : forall unc c ch inv, k_has (update_cache unc c ch inv) = k_has c.
Proof.
  intros unc c ch inv. unfold update_cache.
  assert (A : forall l c0, k_has (fold_left (inval1 unc) l c0) = k_has c0).
  { induction l as [|q l IH]; intro c0; [reflexivity|]. cbn [fold_left]. rewrite IH. unfold inval1.
    destruct (mem q unc); reflexivity. }
  assert (B : forall l c0, k_has (fold_left (change1 unc) l c0) = k_has c0).
  { induction l as [|q l IH]; intro c0; [reflexivity|]. cbn [fold_left]. rewrite IH. unfold change1.
    destruct (mem (fst q) unc); reflexivity. }
  rewrite B, A. reflexivity.
Qed.

(* the values as a function of the values only *)
Definition vapply (pc : pcfg) (v : N -> option N) (m : sigm) : N -> option N :=
  match s_body m with
  | BProps ifc ch inv => if ifc =? p_pi pc then upd_val (p_unc pc) v ch inv else v
  | _ => v
  end.

Definition veq (f g : N -> option N) : Prop := forall p, f p = g p.

Lemma upd_val_ext : forall unc f g ch inv, veq f g -> veq (upd_val unc f ch inv) (upd_val unc g ch inv).
Proof. intros unc f g ch inv H p. unfold upd_val. rewrite H. reflexivity. Qed.

Lemma upd_val_unc : forall unc f ch inv, unc_none unc (upd_val unc f ch inv).
Proof. intros unc f ch inv p Hp. unfold upd_val. rewrite Hp. reflexivity. Qed.

Lemma vapply_ext : forall pc f g m, veq f g -> veq (vapply pc f m) (vapply pc g m).
Proof.
  intros pc f g m H. unfold vapply. destruct (s_body m); try exact H.
  destruct (ifc =? p_pi pc); [apply upd_val_ext; exact H|exact H].
Qed.

Lemma vapply_unc : forall pc f m, unc_none (p_unc pc) f -> unc_none (p_unc pc) (vapply pc f m).
Proof.
  intros pc f m H. unfold vapply. destruct (s_body m); try exact H.
  destruct (ifc =? p_pi pc); [apply upd_val_unc|exact H].
Qed.

Lemma apply_msg_val : forall pc c m, unc_none (p_unc pc) (k_val c) -> veq (k_val (apply_msg pc c m)) (vapply pc (k_val c) m).
Proof.
  intros pc c m Hu p. unfold apply_msg, vapply. destruct (s_body m); try reflexivity.
  destruct (ifc =? p_pi pc); [apply update_cache_val; exact Hu|reflexivity].
Qed.

Lemma apply_msg_unc : forall pc c m, unc_none (p_unc pc) (k_val c) -> unc_none (p_unc pc) (k_val (apply_msg pc c m)).
Proof.
  intros pc c m Hu. unfold apply_msg. destruct (s_body m); try exact Hu.
  destruct (ifc =? p_pi pc); [apply update_cache_unc; exact Hu|exact Hu].
Qed.

(* pending updates applied in order *)
Definition vpend (pc : pcfg) (v : N -> option N) (l : queue sigm) : N -> option N :=
  fold_left (fun f e => vapply pc f (snd e)) l v.

Lemma vpend_app : forall pc v l1 l2, vpend pc v (l1 ++ l2) = vpend pc (vpend pc v l1) l2.
Proof. intros. unfold vpend. apply fold_left_app. Qed.

Lemma vpend_ext : forall pc l f g, veq f g -> veq (vpend pc f l) (vpend pc g l).
Proof.
  intros pc l. induction l as [|e l IH]; intros f g H; [exact H|]. cbn [vpend fold_left].
  apply IH. apply vapply_ext. exact H.
Qed.

Lemma vpend_unc : forall pc l f, unc_none (p_unc pc) f -> unc_none (p_unc pc) (vpend pc f l).
Proof.
  intros pc l. induction l as [|e l IH]; intros f H; [exact H|]. cbn [vpend fold_left]. apply IH. apply vapply_unc. exact H.
Qed.
