(* C31/Spec.v — what the property says: one left-to-right pass over the wire history, no tasks, no streams.

   The cached value of a property is what the received messages imply, in receive order: the GetAll
   snapshot (the reply to the call the cache makes right after subscribing: call 2 for a unique-name
   destination, call 4 for a well-known one), then every later PropertiesChanged signal of the proxied object
   sent by the destination (for a well-known name: by its owner at that point, C32/Spec.v) whose interface
   argument is the proxy's interface: a changed entry sets the value, an invalidated name clears it (the value
   wins when a name is in both).  Other interfaces, other objects, other senders, and anything received before
   the snapshot never count; a property marked uncached has no cached value, ever.                          *)
From Coq Require Import List NArith Bool.
Import ListNotations.
From ZV Require Import Base.Bytes C32.Model C32.Spec C31.Model.
Local Open Scope N_scope.

Definition GETALL (d : dest) : N := match d with DWell => 4 | DUnique _ => 2 end.

(* the value a changed-dictionary gives to p: its last entry for p *)
Definition last_val (p : N) (ch : list (N * N)) : option N :=
  fold_left (fun acc kv => if fst kv =? p then Some (snd kv) else acc) ch None.

Definition upd_val (unc : list N) (old : N -> option N) (ch : list (N * N)) (inv : list N) : N -> option N :=
  fun p =>
    if mem p unc then None
    else match last_val p ch with
         | Some v => Some v
         | None => if mem p inv then None else old p
         end.

Record pst := { q_o : sst;                  (* replies seen, current owner (C32/Spec.v) *)
                q_ok : bool;                (* the snapshot has been received: the cache is ready *)
                q_val : N -> option N }.

Definition q_init (pc : pcfg) : pst := {| q_o := sp_init (scfg pc); q_ok := false; q_val := fun _ => None |}.

(* a PropertiesChanged signal of the proxied object *)
Definition props_signal (s : sigm) : bool :=
  (s_path s =? P_OBJ) && (s_iface s =? I_PROPS) && (s_member s =? M_PROPS).

Definition q_step (pc : pcfg) (st : pst) (m : wmsg) : pst :=
  let o' := sp_step (scfg pc) (q_o st) m in
  match m with
  | WRep p =>
      if sp_rep (q_o st) + 1 =? GETALL (p_dest pc) then
        match p with
        | PSnap l => {| q_o := o'; q_ok := true; q_val := upd_val (p_unc pc) (fun _ => None) l [] |}
        | _ => {| q_o := o'; q_ok := false; q_val := q_val st |}       (* no snapshot: the cache never gets ready *)
        end
      else {| q_o := o'; q_ok := q_ok st; q_val := q_val st |}
  | WSig s =>
      {| q_o := o'; q_ok := q_ok st;
         q_val := if q_ok st && props_signal s && from_owner (q_o st) s
                  then match s_body s with
                       | BProps ifc ch inv => if ifc =? p_pi pc then upd_val (p_unc pc) (q_val st) ch inv else q_val st
                       | _ => q_val st
                       end
                  else q_val st |}
  end.

Definition spec_state (pc : pcfg) (h : list wmsg) : pst := fold_left (q_step pc) h (q_init pc).
Definition spec_cache (pc : pcfg) (h : list wmsg) (p : N) : option N := q_val (spec_state pc h) p.

(* the cache is ready once the snapshot has been received; it has failed if the reply was something else *)
Definition spec_ready (pc : pcfg) (h : list wmsg) : option bool :=
  let Q := spec_state pc h in
  if q_ok Q then Some true
  else if GETALL (p_dest pc) <=? sp_rep (q_o Q) then Some false else None.

(* ---------------------------------------------------------------- vocabulary of the theorems *)
(* the caching task has nothing left to do: it has failed, or keep_updated finds its stream empty *)
Definition caught_up (x : cworld) : Prop :=
  match c_stage x with
  | SFailed => True
  | SKeep => match w_ph (cw x) with PhReady st => fst (ssp st None) = RPending | _ => False end
  | _ => False
  end.

(* what the property stream of p reported last (c_seen is latest first) *)
Definition last_seen (l : list (N * option N)) (p : N) : option N :=
  match find (fun e => fst e =? p) l with Some e => snd e | None => None end.

(* the messages read so far *)
Definition received (x : cworld) (h : list wmsg) : list wmsg := firstn (N.to_nat (w_seq (cw x))) h.
