(* C31/Model.v — executable mirror of the proxy's properties cache, as it is.  No proofs in this file.

   Mirrored code (zbus/src/proxy/mod.rs):
     PropertiesCache::new       the task: init, then publish the result (ready), then keep_updated
     PropertiesCache::init      receive_properties_changed() (a SignalStream, C32/Model.v), GetAll through
                                call_method_raw, join_streams(prop_changes, get_all): updates before the reply are
                                discarded, the reply populates the cache, a buffered update is applied
     PropertiesCache::keep_updated / update_cache   invalidated first, then changed; uncached names skipped;
                                other interfaces skipped; events notified
     Proxy::cached_property_raw, Proxy::receive_property_changed, PropertyStream::poll_next
   The ordered join, the channels, the socket reader and the SignalStream are those of C32/Model.v.       *)
From Coq Require Import List NArith Bool.
Import ListNotations.
From ZV Require Import Base.Bytes C32.Model.
Local Open Scope N_scope.

Record pcfg := { p_dest : dest; p_pi : N; p_unc : list N }.

(* the PropertiesProxy's signal stream: interface Properties, member PropertiesChanged *)
Definition scfg (pc : pcfg) : cfg := {| c_dest := p_dest pc; c_pi := I_PROPS; c_pm := Some M_PROPS |}.

Definition mem (p : N) (l : list N) : bool := existsb (N.eqb p) l.

(* ---------------------------------------------------------------- the cache *)
(* values: HashMap<String, PropertyValue { value, event }>.  [k_has p]: a PropertyStream listens on p's event;
   [k_note p]: that listener has been notified and not yet consumed *)
Record cache := { k_val : N -> option N; k_note : N -> bool; k_has : N -> bool }.

Definition empty_cache : cache := {| k_val := fun _ => None; k_note := fun _ => false; k_has := fun _ => false |}.

Definition set_val (c : cache) (p : N) (v : option N) : cache :=
  {| k_val := fun q => if q =? p then v else k_val c q;
     k_note := fun q => if q =? p then k_note c q || k_has c q else k_note c q;     (* event.notify(usize::MAX) *)
     k_has := k_has c |}.

(* update_cache: the invalidated loop, then the changed loop *)
Definition inval1 (unc : list N) (c : cache) (p : N) : cache :=
  if mem p unc then c else set_val c p None.
Definition change1 (unc : list N) (c : cache) (kv : N * N) : cache :=
  if mem (fst kv) unc then c else set_val c (fst kv) (Some (snd kv)).
Definition update_cache (unc : list N) (c : cache) (ch : list (N * N)) (inv : list N) : cache :=
  fold_left (change1 unc) ch (fold_left (inval1 unc) inv c).

(* `if let Ok(args) = update.args() { if args.interface_name == interface { update_cache(..) } }` *)
Definition apply_msg (pc : pcfg) (c : cache) (m : sigm) : cache :=
  match s_body m with
  | BProps ifc ch inv => if ifc =? p_pi pc then update_cache (p_unc pc) c ch inv else c
  | _ => c
  end.

(* ---------------------------------------------------------------- the caching task *)
Inductive citem := CLeft (m : sigm) | CRight (p : payload).

Inductive cstage :=
| SNew                                   (* init: proxy.receive_properties_changed().await — C32's phases *)
| SInit (c : N) (j : jstate citem) (fut : option (queue (N * payload)))
                                         (* init: join(prop_changes, get_all).next().await *)
| SKeep                                  (* keep_updated: prop_changes.next().await *)
| SFailed.                               (* init returned Err: CachingResult::Cached { Err } *)

Record cworld := { cw : world;           (* reader, calls, and the SignalStream (in PhReady) *)
                   c_stage : cstage;
                   c_cache : cache;
                   c_ready : option bool;           (* CachingResult: None = Caching, Some ok = Cached *)
                   c_seen : list (N * option N) }.  (* PropertyStream items (property, value read then), latest first *)

Definition init_cworld (h : list wmsg) : cworld :=
  {| cw := init_world h; c_stage := SNew; c_cache := empty_cache; c_ready := None; c_seen := [] |}.

Definition set_cw (x : cworld) (w : world) : cworld :=
  {| cw := w; c_stage := c_stage x; c_cache := c_cache x; c_ready := c_ready x; c_seen := c_seen x |}.

(* the socket reader: as in C32, and the GetAll reply goes to its PendingMethodCall *)
Definition ctick (pc : pcfg) (x : cworld) : option cworld :=
  match tick (scfg pc) (cw x) with
  | None => None
  | Some w' =>
      match w_todo (cw x), c_stage x with
      | WRep p :: _, SInit c j (Some qr) =>
          Some {| cw := w'; c_stage := SInit c j (Some (push qr (w_seq w') (w_reps w', p)));
                  c_cache := c_cache x; c_ready := c_ready x; c_seen := c_seen x |}
      | _, _ => Some (set_cw x w')
      end
  end.

(* SignalStream as an OrderedStream inside the outer join (total: the fuel always suffices, C32/Facts) *)
Definition ssp (st : sstream) (before : option N) : pres sigm * sstream :=
  match ss_poll (ss_fuel st) st before with
  | Some r => r
  | None => (RPending, st)
  end.

Definition init_poll (c : N) (j : jstate citem) (st : sstream) (fut : option (queue (N * payload))) :=
  join_poll (fun s b => let '(r, s') := ssp s b in (map_pres CLeft r, s'))
            (fun f b => let '(r, f') := fut_poll c f b in (map_pres CRight r, f'))
            j st fut None.

Definition with_stream (x : cworld) (st : sstream) : world := set_ph (cw x) (PhReady st).

(* one step of the task: up to the next await that is not ready, or one loop iteration *)
Definition task_step (pc : pcfg) (x : cworld) : cworld :=
  match c_stage x with
  | SNew =>
      match w_ph (cw x) with
      | PhReady _ =>
          (* call_method_raw(GetAll) *)
          let w' := call (cw x) C_GETALL (fun _ => w_ph (cw x)) in
          {| cw := w'; c_stage := SInit (ncalls w') JNone (Some []); c_cache := c_cache x; c_ready := c_ready x;
             c_seen := c_seen x |}
      | PhFailed | PhPanic =>
          {| cw := cw x; c_stage := SFailed; c_cache := c_cache x; c_ready := Some false; c_seen := c_seen x |}
      | _ => set_cw x (client_step (scfg pc) (cw x))
      end
  | SInit c j fut =>
      match w_ph (cw x) with
      | PhReady st =>
          let '(r, j', st', fut') := init_poll c j st fut in
          match r with
          | RItem (CLeft _) _ =>                           (* discard updates prior to the initial population *)
              {| cw := with_stream x st'; c_stage := SInit c j' fut'; c_cache := c_cache x; c_ready := c_ready x;
                 c_seen := c_seen x |}
          | RItem (CRight (PSnap l)) _ =>
              let c1 := update_cache (p_unc pc) (c_cache x) l [] in
              (* take_buffered: an update that came after the reply *)
              let c2 := match j' with JA (CLeft m) _ => apply_msg pc c1 m | _ => c1 end in
              {| cw := with_stream x st'; c_stage := SKeep; c_cache := c2; c_ready := Some true; c_seen := c_seen x |}
          | RItem (CRight _) _ =>                          (* populate? / deserialize()? *)
              {| cw := with_stream x st'; c_stage := SFailed; c_cache := c_cache x; c_ready := Some false;
                 c_seen := c_seen x |}
          | RTerm =>                                       (* None => break *)
              {| cw := with_stream x st'; c_stage := SKeep; c_cache := c_cache x; c_ready := Some true;
                 c_seen := c_seen x |}
          | _ =>
              {| cw := with_stream x st'; c_stage := SInit c j' fut'; c_cache := c_cache x; c_ready := c_ready x;
                 c_seen := c_seen x |}
          end
      | _ => x
      end
  | SKeep =>
      match w_ph (cw x) with
      | PhReady st =>
          match ssp st None with
          | (RItem m _, st') =>
              {| cw := with_stream x st'; c_stage := SKeep; c_cache := apply_msg pc (c_cache x) m;
                 c_ready := c_ready x; c_seen := c_seen x |}
          | (_, st') => set_cw x (with_stream x st')
          end
      | _ => x
      end
  | SFailed => x
  end.

(* ---------------------------------------------------------------- the consumer *)
Definition STREAM_PROPS : list N := [0; 1; 3].

(* receive_property_changed(name): entry().or_insert_with(default); listen(); if value.is_some() { notify(1) } *)
Definition add_stream (c : cache) (p : N) : cache :=
  if k_has c p then c
  else {| k_val := k_val c;
          k_note := fun q => if q =? p then match k_val c p with Some _ => true | None => false end else k_note c q;
          k_has := fun q => if q =? p then true else k_has c q |}.

Definition with_cache (x : cworld) (c : cache) : cworld :=
  {| cw := cw x; c_stage := c_stage x; c_cache := c; c_ready := c_ready x; c_seen := c_seen x |}.

(* PropertyStream::poll_next, then the consumer reads the cached value *)
Definition poll_stream (x : cworld) (p : N) : cworld :=
  let c := c_cache x in
  if k_has c p && k_note c p then
    {| cw := cw x; c_stage := c_stage x;
       c_cache := {| k_val := k_val c; k_note := fun q => if q =? p then false else k_note c q; k_has := k_has c |};
       c_ready := c_ready x; c_seen := (p, k_val c p) :: c_seen x |}
  else x.

Inductive caction := CTick | CTask | CStreams | CPollS (p : N).

Definition cstep (pc : pcfg) (x : cworld) (a : caction) : cworld :=
  match a with
  | CTick => match ctick pc x with Some x' => x' | None => x end
  | CTask => task_step pc x
  | CStreams => with_cache x (fold_left add_stream STREAM_PROPS (c_cache x))
  | CPollS p => poll_stream x p
  end.

Definition crun (pc : pcfg) (h : list wmsg) (sched : list caction) : cworld :=
  fold_left (cstep pc) sched (init_cworld h).

(* Proxy::cached_property_raw *)
Definition cached (x : cworld) (p : N) : option N := k_val (c_cache x) p.
