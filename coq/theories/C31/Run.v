(* C31/Run.v — line driver.
   case:   P <dest> <pi> <mode> <unc> <script>      (syntax: C32/Parse.v, harness/hproxy/src/main.rs)
   model:  what harness/hproxy prints: per batch `<ready>:<P0.P1.P2.P3 cached>:<stream items s0|s1|s3 or _>`
           joined by ';', then ` calls=<calls made>`; NOCALL; PANIC
   spec:   per batch `<ready>:<cached values per C31/Spec.v>:<latest values v0|v1|v3 or _>`; props/C31.py checks
           ready and cache for equality and every stream item against the latest value (an item must show it; no
           item is allowed only if the latest value is the one reported last).  `-` when the script is not a
           history a bus can produce or a reply is malformed
   class:  - (C32's release class, once inherited through the PropertiesChanged stream, was repaired by 902c9069) *)
From Coq Require Import List NArith Bool.
Import ListNotations.
From ZV Require Import Base.Bytes C32.Model C32.Spec C32.Parse C32.Run C31.Model C31.Spec.
Local Open Scope N_scope.

Fixpoint cticks (pc : pcfg) (n : nat) (x : cworld) : option cworld :=
  match n with
  | O => Some x
  | S k => match ctick pc x with Some x' => cticks pc k x' | None => None end
  end.

Definition csettle (pc : pcfg) (fuel : nat) (x : cworld) : cworld := fold_left (cstep pc) (repeat CTask fuel) x.

Definition has_streams (x : cworld) : bool := k_has (c_cache x) 0.

Definition val_tok (none : bytes) (v : option N) : bytes := match v with Some n => dec_of_N n | None => none end.

Definition ready_tok (mode_y : bool) (r : option bool) : bytes :=
  if mode_y then match r with None => B "w" | Some true => B "r" | Some false => B "E" end else B "-".

Definition cache_tok (f : N -> option N) : bytes := join (B ".") (map (fun p => val_tok (B "-") (f p)) [0; 1; 2; 3]).

(* poll every stream until it is pending; the items of stream p gained meanwhile *)
Definition poll_all (pc : pcfg) (x : cworld) : cworld :=
  fold_left (cstep pc) (flat_map (fun p => [CPollS p; CPollS p]) STREAM_PROPS) x.

Definition items_of (p : N) (before after : list (N * option N)) : list (option N) :=
  map snd (filter (fun e => fst e =? p) (rev (firstn (length after - length before) after))).

Definition stream_tok (before after : list (N * option N)) : bytes :=
  join (B "|") (map (fun p => match items_of p before after with
                              | [] => B "-"
                              | l => join (B ".") (map (val_tok (B "n")) l)
                              end) STREAM_PROPS).

Fixpoint crun_batches (pc : pcfg) (mode_y : bool) (fuel : nat) (bs : list (bool * list wmsg)) (x : cworld)
  : option (list bytes * cworld) :=
  match bs with
  | [] => Some ([], x)
  | (pl, evs) :: r =>
      match cticks pc (length evs) x with
      | None => None
      | Some x1 =>
          let x2 := csettle pc fuel x1 in
          let x3 := if negb (has_streams x2) && (match c_ready x2 with Some true => true | _ => false end)
                    then cstep pc x2 CStreams else x2 in
          let x4 := if pl && has_streams x3 then poll_all pc x3 else x3 in
          let ss := if pl && has_streams x3 then stream_tok (c_seen x3) (c_seen x4) else B "_" in
          match crun_batches pc mode_y fuel r x4 with
          | Some (toks, xf) =>
              Some ((ready_tok mode_y (c_ready x2) ++ B ":" ++ cache_tok (cached x2) ++ B ":" ++ ss) :: toks, xf)
          | None => None
          end
      end
  end.

Definition cmodel_line (pc : pcfg) (mode_y : bool) (bs : list (bool * list wmsg)) : bytes * cworld :=
  let h := flat_map snd bs in
  let fuel := (10 + length h)%nat in
  let x0 := if mode_y then csettle pc fuel (init_cworld h)
            else csettle pc fuel (cstep pc (init_cworld h) CStreams) in
  match crun_batches pc mode_y fuel bs x0 with
  | None => (B "NOCALL", x0)
  | Some (toks, x) =>
      if has_panic (cw x) then (B "PANIC", x)
      else (join (B ";") toks ++ B " calls=" ++ calls_text (w_log (cw x)), x)
  end.

(* ---- the specification's reading *)
Definition creply_ok (d : dest) (k : N) (p : payload) : bool :=
  if k =? GETALL d then match p with PSnap _ | PErr => true | _ => false end
  else reply_ok d k p.

Fixpoint creplies_ok (d : dest) (k : N) (h : list wmsg) : bool :=
  match h with
  | [] => true
  | WRep p :: r => (if k + 1 <=? GETALL d then creply_ok d (k + 1) p else false) && creplies_ok d (k + 1) r
  | WSig _ :: r => creplies_ok d k r
  end.

Fixpoint cspec_batches (pc : pcfg) (mode_y : bool) (h : list wmsg) (bs : list (bool * list wmsg)) (seen : N)
  : list bytes :=
  match bs with
  | [] => []
  | (pl, evs) :: r =>
      let seen' := seen + N.of_nat (length evs) in
      let pre := firstn (N.to_nat seen') h in
      let rd := spec_ready pc pre in
      let streams := if mode_y then match rd with Some true => true | _ => false end else true in
      let vals := spec_cache pc pre in
      (ready_tok mode_y rd ++ B ":" ++ cache_tok vals ++ B ":" ++
       (if pl && streams then join (B "|") (map (fun p => val_tok (B "n") (vals p)) STREAM_PROPS) else B "_"))
      :: cspec_batches pc mode_y h r seen'
  end.

Definition cspec_line (pc : pcfg) (mode_y : bool) (bs : list (bool * list wmsg)) : bytes :=
  let h := flat_map snd bs in
  if bus_history (scfg pc) h && creplies_ok (p_dest pc) 0 h then join (B ";") (cspec_batches pc mode_y h bs 0)
  else dash.

Fixpoint parse_unc (s : bytes) : option (list N) :=
  match s with
  | [] => Some []
  | c :: r => match digit_le 4 c, parse_unc r with Some d, Some l => Some (d :: l) | _, _ => None end
  end.

Definition run_case (line : bytes) : outp :=
  match words line with
  | [m; d; pi; mode; unc; sc] =>
      if lbeq m (B "P") then
        match parse_dest d, one_digit 3 pi, (if lbeq unc (B "-") then Some [] else parse_unc unc), parse_script sc with
        | Some dd, Some pii, Some uu, Some bs0 =>
            if lbeq mode (B "Y") || lbeq mode (B "L") then
              let pc := {| p_dest := dd; p_pi := pii; p_unc := uu |} in
              let mode_y := lbeq mode (B "Y") in
              let bs := force_last_poll bs0 in
              let '(ml, x) := cmodel_line pc mode_y bs in
              {| o_model := ml;
                 o_spec := if lbeq ml (B "NOCALL") then dash else cspec_line pc mode_y bs;
                 o_class := dash |}
            else bad_case
        | _, _, _, _ => bad_case
        end
      else bad_case
  | _ => bad_case
  end.

Definition run (line : bytes) : bytes := render (run_case line).
