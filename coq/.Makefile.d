theories/Base/Bytes.vo theories/Base/Bytes.glob theories/Base/Bytes.v.beautified theories/Base/Bytes.required_vo: theories/Base/Bytes.v 
theories/Base/Bytes.vio: theories/Base/Bytes.v 
theories/Base/Bytes.vos theories/Base/Bytes.vok theories/Base/Bytes.required_vos: theories/Base/Bytes.v 
theories/Base/Res.vo theories/Base/Res.glob theories/Base/Res.v.beautified theories/Base/Res.required_vo: theories/Base/Res.v theories/Base/Bytes.vo
theories/Base/Res.vio: theories/Base/Res.v theories/Base/Bytes.vio
theories/Base/Res.vos theories/Base/Res.vok theories/Base/Res.required_vos: theories/Base/Res.v theories/Base/Bytes.vos
theories/Base/Sig.vo theories/Base/Sig.glob theories/Base/Sig.v.beautified theories/Base/Sig.required_vo: theories/Base/Sig.v theories/Base/Bytes.vo
theories/Base/Sig.vio: theories/Base/Sig.v theories/Base/Bytes.vio
theories/Base/Sig.vos theories/Base/Sig.vok theories/Base/Sig.required_vos: theories/Base/Sig.v theories/Base/Bytes.vos
theories/Base/Winnow.vo theories/Base/Winnow.glob theories/Base/Winnow.v.beautified theories/Base/Winnow.required_vo: theories/Base/Winnow.v theories/Base/Bytes.vo
theories/Base/Winnow.vio: theories/Base/Winnow.v theories/Base/Bytes.vio
theories/Base/Winnow.vos theories/Base/Winnow.vok theories/Base/Winnow.required_vos: theories/Base/Winnow.v theories/Base/Bytes.vos
theories/Base/WinnowFacts.vo theories/Base/WinnowFacts.glob theories/Base/WinnowFacts.v.beautified theories/Base/WinnowFacts.required_vo: theories/Base/WinnowFacts.v theories/Base/Bytes.vo theories/Base/Winnow.vo
theories/Base/WinnowFacts.vio: theories/Base/WinnowFacts.v theories/Base/Bytes.vio theories/Base/Winnow.vio
theories/Base/WinnowFacts.vos theories/Base/WinnowFacts.vok theories/Base/WinnowFacts.required_vos: theories/Base/WinnowFacts.v theories/Base/Bytes.vos theories/Base/Winnow.vos
theories/C10/Model.vo theories/C10/Model.glob theories/C10/Model.v.beautified theories/C10/Model.required_vo: theories/C10/Model.v theories/Base/Bytes.vo theories/Base/Winnow.vo
theories/C10/Model.vio: theories/C10/Model.v theories/Base/Bytes.vio theories/Base/Winnow.vio
theories/C10/Model.vos theories/C10/Model.vok theories/C10/Model.required_vos: theories/C10/Model.v theories/Base/Bytes.vos theories/Base/Winnow.vos
theories/C10/Proofs.vo theories/C10/Proofs.glob theories/C10/Proofs.v.beautified theories/C10/Proofs.required_vo: theories/C10/Proofs.v theories/Base/Bytes.vo theories/Base/Winnow.vo theories/Base/WinnowFacts.vo theories/C10/Model.vo theories/C10/Spec.vo
theories/C10/Proofs.vio: theories/C10/Proofs.v theories/Base/Bytes.vio theories/Base/Winnow.vio theories/Base/WinnowFacts.vio theories/C10/Model.vio theories/C10/Spec.vio
theories/C10/Proofs.vos theories/C10/Proofs.vok theories/C10/Proofs.required_vos: theories/C10/Proofs.v theories/Base/Bytes.vos theories/Base/Winnow.vos theories/Base/WinnowFacts.vos theories/C10/Model.vos theories/C10/Spec.vos
theories/C10/Run.vo theories/C10/Run.glob theories/C10/Run.v.beautified theories/C10/Run.required_vo: theories/C10/Run.v theories/Base/Bytes.vo theories/C10/Model.vo theories/C10/Spec.vo
theories/C10/Run.vio: theories/C10/Run.v theories/Base/Bytes.vio theories/C10/Model.vio theories/C10/Spec.vio
theories/C10/Run.vos theories/C10/Run.vok theories/C10/Run.required_vos: theories/C10/Run.v theories/Base/Bytes.vos theories/C10/Model.vos theories/C10/Spec.vos
theories/C10/Spec.vo theories/C10/Spec.glob theories/C10/Spec.v.beautified theories/C10/Spec.required_vo: theories/C10/Spec.v theories/Base/Bytes.vo
theories/C10/Spec.vio: theories/C10/Spec.v theories/Base/Bytes.vio
theories/C10/Spec.vos theories/C10/Spec.vok theories/C10/Spec.required_vos: theories/C10/Spec.v theories/Base/Bytes.vos
theories/Properties/C10.vo theories/Properties/C10.glob theories/Properties/C10.v.beautified theories/Properties/C10.required_vo: theories/Properties/C10.v theories/Base/Bytes.vo theories/C10/Model.vo theories/C10/Spec.vo theories/C10/Proofs.vo
theories/Properties/C10.vio: theories/Properties/C10.v theories/Base/Bytes.vio theories/C10/Model.vio theories/C10/Spec.vio theories/C10/Proofs.vio
theories/Properties/C10.vos theories/Properties/C10.vok theories/Properties/C10.required_vos: theories/Properties/C10.v theories/Base/Bytes.vos theories/C10/Model.vos theories/C10/Spec.vos theories/C10/Proofs.vos
