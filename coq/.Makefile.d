theories/Base/Bytes.vo theories/Base/Bytes.glob theories/Base/Bytes.v.beautified theories/Base/Bytes.required_vo: theories/Base/Bytes.v 
theories/Base/Bytes.vio: theories/Base/Bytes.v 
theories/Base/Bytes.vos theories/Base/Bytes.vok theories/Base/Bytes.required_vos: theories/Base/Bytes.v 
theories/Base/Res.vo theories/Base/Res.glob theories/Base/Res.v.beautified theories/Base/Res.required_vo: theories/Base/Res.v theories/Base/Bytes.vo
theories/Base/Res.vio: theories/Base/Res.v theories/Base/Bytes.vio
theories/Base/Res.vos theories/Base/Res.vok theories/Base/Res.required_vos: theories/Base/Res.v theories/Base/Bytes.vos
theories/Base/Sig.vo theories/Base/Sig.glob theories/Base/Sig.v.beautified theories/Base/Sig.required_vo: theories/Base/Sig.v theories/Base/Bytes.vo
theories/Base/Sig.vio: theories/Base/Sig.v theories/Base/Bytes.vio
theories/Base/Sig.vos theories/Base/Sig.vok theories/Base/Sig.required_vos: theories/Base/Sig.v theories/Base/Bytes.vos
theories/Base/SigParse.vo theories/Base/SigParse.glob theories/Base/SigParse.v.beautified theories/Base/SigParse.required_vo: theories/Base/SigParse.v theories/Base/Bytes.vo theories/Base/Sig.vo
theories/Base/SigParse.vio: theories/Base/SigParse.v theories/Base/Bytes.vio theories/Base/Sig.vio
theories/Base/SigParse.vos theories/Base/SigParse.vok theories/Base/SigParse.required_vos: theories/Base/SigParse.v theories/Base/Bytes.vos theories/Base/Sig.vos
theories/Base/Utf8.vo theories/Base/Utf8.glob theories/Base/Utf8.v.beautified theories/Base/Utf8.required_vo: theories/Base/Utf8.v theories/Base/Bytes.vo
theories/Base/Utf8.vio: theories/Base/Utf8.v theories/Base/Bytes.vio
theories/Base/Utf8.vos theories/Base/Utf8.vok theories/Base/Utf8.required_vos: theories/Base/Utf8.v theories/Base/Bytes.vos
theories/Base/Winnow.vo theories/Base/Winnow.glob theories/Base/Winnow.v.beautified theories/Base/Winnow.required_vo: theories/Base/Winnow.v theories/Base/Bytes.vo
theories/Base/Winnow.vio: theories/Base/Winnow.v theories/Base/Bytes.vio
theories/Base/Winnow.vos theories/Base/Winnow.vok theories/Base/Winnow.required_vos: theories/Base/Winnow.v theories/Base/Bytes.vos
theories/Base/WinnowFacts.vo theories/Base/WinnowFacts.glob theories/Base/WinnowFacts.v.beautified theories/Base/WinnowFacts.required_vo: theories/Base/WinnowFacts.v theories/Base/Bytes.vo theories/Base/Winnow.vo
theories/Base/WinnowFacts.vio: theories/Base/WinnowFacts.v theories/Base/Bytes.vio theories/Base/Winnow.vio
theories/Base/WinnowFacts.vos theories/Base/WinnowFacts.vok theories/Base/WinnowFacts.required_vos: theories/Base/WinnowFacts.v theories/Base/Bytes.vos theories/Base/Winnow.vos
theories/C06/Classes.vo theories/C06/Classes.glob theories/C06/Classes.v.beautified theories/C06/Classes.required_vo: theories/C06/Classes.v theories/Base/Bytes.vo theories/Base/Res.vo theories/Base/Sig.vo theories/C06/Model.vo
theories/C06/Classes.vio: theories/C06/Classes.v theories/Base/Bytes.vio theories/Base/Res.vio theories/Base/Sig.vio theories/C06/Model.vio
theories/C06/Classes.vos theories/C06/Classes.vok theories/C06/Classes.required_vos: theories/C06/Classes.v theories/Base/Bytes.vos theories/Base/Res.vos theories/Base/Sig.vos theories/C06/Model.vos
theories/C06/Model.vo theories/C06/Model.glob theories/C06/Model.v.beautified theories/C06/Model.required_vo: theories/C06/Model.v theories/Base/Bytes.vo theories/Base/Res.vo
theories/C06/Model.vio: theories/C06/Model.v theories/Base/Bytes.vio theories/Base/Res.vio
theories/C06/Model.vos theories/C06/Model.vok theories/C06/Model.required_vos: theories/C06/Model.v theories/Base/Bytes.vos theories/Base/Res.vos
theories/C06/Run.vo theories/C06/Run.glob theories/C06/Run.v.beautified theories/C06/Run.required_vo: theories/C06/Run.v theories/Base/Bytes.vo theories/Base/Res.vo theories/Base/Sig.vo theories/C06/Model.vo theories/C06/Spec.vo theories/C06/Classes.vo
theories/C06/Run.vio: theories/C06/Run.v theories/Base/Bytes.vio theories/Base/Res.vio theories/Base/Sig.vio theories/C06/Model.vio theories/C06/Spec.vio theories/C06/Classes.vio
theories/C06/Run.vos theories/C06/Run.vok theories/C06/Run.required_vos: theories/C06/Run.v theories/Base/Bytes.vos theories/Base/Res.vos theories/Base/Sig.vos theories/C06/Model.vos theories/C06/Spec.vos theories/C06/Classes.vos
theories/C06/Spec.vo theories/C06/Spec.glob theories/C06/Spec.v.beautified theories/C06/Spec.required_vo: theories/C06/Spec.v theories/Base/Bytes.vo
theories/C06/Spec.vio: theories/C06/Spec.v theories/Base/Bytes.vio
theories/C06/Spec.vos theories/C06/Spec.vok theories/C06/Spec.required_vos: theories/C06/Spec.v theories/Base/Bytes.vos
theories/C06/SpecFacts.vo theories/C06/SpecFacts.glob theories/C06/SpecFacts.v.beautified theories/C06/SpecFacts.required_vo: theories/C06/SpecFacts.v theories/Base/Bytes.vo theories/C06/Spec.vo
theories/C06/SpecFacts.vio: theories/C06/SpecFacts.v theories/Base/Bytes.vio theories/C06/Spec.vio
theories/C06/SpecFacts.vos theories/C06/SpecFacts.vok theories/C06/SpecFacts.required_vos: theories/C06/SpecFacts.v theories/Base/Bytes.vos theories/C06/Spec.vos
theories/C08/Algebra.vo theories/C08/Algebra.glob theories/C08/Algebra.v.beautified theories/C08/Algebra.required_vo: theories/C08/Algebra.v theories/Base/Bytes.vo theories/C08/Model.vo theories/C08/Spec.vo
theories/C08/Algebra.vio: theories/C08/Algebra.v theories/Base/Bytes.vio theories/C08/Model.vio theories/C08/Spec.vio
theories/C08/Algebra.vos theories/C08/Algebra.vok theories/C08/Algebra.required_vos: theories/C08/Algebra.v theories/Base/Bytes.vos theories/C08/Model.vos theories/C08/Spec.vos
theories/C08/Clone.vo theories/C08/Clone.glob theories/C08/Clone.v.beautified theories/C08/Clone.required_vo: theories/C08/Clone.v theories/Base/Bytes.vo theories/Base/Res.vo theories/Base/Sig.vo theories/C08/Model.vo theories/C08/Spec.vo theories/C08/Algebra.vo theories/C08/SigFacts.vo theories/C08/ValueFacts.vo theories/C08/Order.vo
theories/C08/Clone.vio: theories/C08/Clone.v theories/Base/Bytes.vio theories/Base/Res.vio theories/Base/Sig.vio theories/C08/Model.vio theories/C08/Spec.vio theories/C08/Algebra.vio theories/C08/SigFacts.vio theories/C08/ValueFacts.vio theories/C08/Order.vio
theories/C08/Clone.vos theories/C08/Clone.vok theories/C08/Clone.required_vos: theories/C08/Clone.v theories/Base/Bytes.vos theories/Base/Res.vos theories/Base/Sig.vos theories/C08/Model.vos theories/C08/Spec.vos theories/C08/Algebra.vos theories/C08/SigFacts.vos theories/C08/ValueFacts.vos theories/C08/Order.vos
theories/C08/Conv.vo theories/C08/Conv.glob theories/C08/Conv.v.beautified theories/C08/Conv.required_vo: theories/C08/Conv.v theories/Base/Bytes.vo theories/Base/Res.vo theories/Base/Sig.vo theories/C08/Model.vo theories/C08/Spec.vo theories/C08/Algebra.vo theories/C08/SigFacts.vo theories/C08/ValueFacts.vo theories/C08/Order.vo
theories/C08/Conv.vio: theories/C08/Conv.v theories/Base/Bytes.vio theories/Base/Res.vio theories/Base/Sig.vio theories/C08/Model.vio theories/C08/Spec.vio theories/C08/Algebra.vio theories/C08/SigFacts.vio theories/C08/ValueFacts.vio theories/C08/Order.vio
theories/C08/Conv.vos theories/C08/Conv.vok theories/C08/Conv.required_vos: theories/C08/Conv.v theories/Base/Bytes.vos theories/Base/Res.vos theories/Base/Sig.vos theories/C08/Model.vos theories/C08/Spec.vos theories/C08/Algebra.vos theories/C08/SigFacts.vos theories/C08/ValueFacts.vos theories/C08/Order.vos
theories/C08/Model.vo theories/C08/Model.glob theories/C08/Model.v.beautified theories/C08/Model.required_vo: theories/C08/Model.v theories/Base/Bytes.vo theories/Base/Res.vo theories/Base/Sig.vo
theories/C08/Model.vio: theories/C08/Model.v theories/Base/Bytes.vio theories/Base/Res.vio theories/Base/Sig.vio
theories/C08/Model.vos theories/C08/Model.vok theories/C08/Model.required_vos: theories/C08/Model.v theories/Base/Bytes.vos theories/Base/Res.vos theories/Base/Sig.vos
theories/C08/Order.vo theories/C08/Order.glob theories/C08/Order.v.beautified theories/C08/Order.required_vo: theories/C08/Order.v theories/Base/Bytes.vo theories/Base/Res.vo theories/Base/Sig.vo theories/Base/WinnowFacts.vo theories/C08/Model.vo theories/C08/Spec.vo theories/C08/Algebra.vo theories/C08/SigFacts.vo theories/C08/ValueFacts.vo
theories/C08/Order.vio: theories/C08/Order.v theories/Base/Bytes.vio theories/Base/Res.vio theories/Base/Sig.vio theories/Base/WinnowFacts.vio theories/C08/Model.vio theories/C08/Spec.vio theories/C08/Algebra.vio theories/C08/SigFacts.vio theories/C08/ValueFacts.vio
theories/C08/Order.vos theories/C08/Order.vok theories/C08/Order.required_vos: theories/C08/Order.v theories/Base/Bytes.vos theories/Base/Res.vos theories/Base/Sig.vos theories/Base/WinnowFacts.vos theories/C08/Model.vos theories/C08/Spec.vos theories/C08/Algebra.vos theories/C08/SigFacts.vos theories/C08/ValueFacts.vos
theories/C08/Proofs.vo theories/C08/Proofs.glob theories/C08/Proofs.v.beautified theories/C08/Proofs.required_vo: theories/C08/Proofs.v theories/Base/Bytes.vo theories/Base/Res.vo theories/Base/Sig.vo theories/C08/Model.vo theories/C08/Spec.vo
theories/C08/Proofs.vio: theories/C08/Proofs.v theories/Base/Bytes.vio theories/Base/Res.vio theories/Base/Sig.vio theories/C08/Model.vio theories/C08/Spec.vio
theories/C08/Proofs.vos theories/C08/Proofs.vok theories/C08/Proofs.required_vos: theories/C08/Proofs.v theories/Base/Bytes.vos theories/Base/Res.vos theories/Base/Sig.vos theories/C08/Model.vos theories/C08/Spec.vos
theories/C08/Run.vo theories/C08/Run.glob theories/C08/Run.v.beautified theories/C08/Run.required_vo: theories/C08/Run.v theories/Base/Bytes.vo theories/Base/Res.vo theories/Base/Sig.vo theories/C08/Model.vo theories/C08/Spec.vo
theories/C08/Run.vio: theories/C08/Run.v theories/Base/Bytes.vio theories/Base/Res.vio theories/Base/Sig.vio theories/C08/Model.vio theories/C08/Spec.vio
theories/C08/Run.vos theories/C08/Run.vok theories/C08/Run.required_vos: theories/C08/Run.v theories/Base/Bytes.vos theories/Base/Res.vos theories/Base/Sig.vos theories/C08/Model.vos theories/C08/Spec.vos
theories/C08/SigFacts.vo theories/C08/SigFacts.glob theories/C08/SigFacts.v.beautified theories/C08/SigFacts.required_vo: theories/C08/SigFacts.v theories/Base/Bytes.vo theories/Base/Sig.vo theories/C08/Model.vo theories/C08/Spec.vo theories/C08/Algebra.vo
theories/C08/SigFacts.vio: theories/C08/SigFacts.v theories/Base/Bytes.vio theories/Base/Sig.vio theories/C08/Model.vio theories/C08/Spec.vio theories/C08/Algebra.vio
theories/C08/SigFacts.vos theories/C08/SigFacts.vok theories/C08/SigFacts.required_vos: theories/C08/SigFacts.v theories/Base/Bytes.vos theories/Base/Sig.vos theories/C08/Model.vos theories/C08/Spec.vos theories/C08/Algebra.vos
theories/C08/Spec.vo theories/C08/Spec.glob theories/C08/Spec.v.beautified theories/C08/Spec.required_vo: theories/C08/Spec.v theories/Base/Bytes.vo theories/Base/Res.vo theories/Base/Sig.vo theories/C08/Model.vo
theories/C08/Spec.vio: theories/C08/Spec.v theories/Base/Bytes.vio theories/Base/Res.vio theories/Base/Sig.vio theories/C08/Model.vio
theories/C08/Spec.vos theories/C08/Spec.vok theories/C08/Spec.required_vos: theories/C08/Spec.v theories/Base/Bytes.vos theories/Base/Res.vos theories/Base/Sig.vos theories/C08/Model.vos
theories/C08/ValueFacts.vo theories/C08/ValueFacts.glob theories/C08/ValueFacts.v.beautified theories/C08/ValueFacts.required_vo: theories/C08/ValueFacts.v theories/Base/Bytes.vo theories/Base/Res.vo theories/Base/Sig.vo theories/Base/WinnowFacts.vo theories/C08/Model.vo theories/C08/Spec.vo theories/C08/Algebra.vo theories/C08/SigFacts.vo
theories/C08/ValueFacts.vio: theories/C08/ValueFacts.v theories/Base/Bytes.vio theories/Base/Res.vio theories/Base/Sig.vio theories/Base/WinnowFacts.vio theories/C08/Model.vio theories/C08/Spec.vio theories/C08/Algebra.vio theories/C08/SigFacts.vio
theories/C08/ValueFacts.vos theories/C08/ValueFacts.vok theories/C08/ValueFacts.required_vos: theories/C08/ValueFacts.v theories/Base/Bytes.vos theories/Base/Res.vos theories/Base/Sig.vos theories/Base/WinnowFacts.vos theories/C08/Model.vos theories/C08/Spec.vos theories/C08/Algebra.vos theories/C08/SigFacts.vos
theories/C10/Model.vo theories/C10/Model.glob theories/C10/Model.v.beautified theories/C10/Model.required_vo: theories/C10/Model.v theories/Base/Bytes.vo theories/Base/Winnow.vo
theories/C10/Model.vio: theories/C10/Model.v theories/Base/Bytes.vio theories/Base/Winnow.vio
theories/C10/Model.vos theories/C10/Model.vok theories/C10/Model.required_vos: theories/C10/Model.v theories/Base/Bytes.vos theories/Base/Winnow.vos
theories/C10/Proofs.vo theories/C10/Proofs.glob theories/C10/Proofs.v.beautified theories/C10/Proofs.required_vo: theories/C10/Proofs.v theories/Base/Bytes.vo theories/Base/Winnow.vo theories/Base/WinnowFacts.vo theories/C10/Model.vo theories/C10/Spec.vo
theories/C10/Proofs.vio: theories/C10/Proofs.v theories/Base/Bytes.vio theories/Base/Winnow.vio theories/Base/WinnowFacts.vio theories/C10/Model.vio theories/C10/Spec.vio
theories/C10/Proofs.vos theories/C10/Proofs.vok theories/C10/Proofs.required_vos: theories/C10/Proofs.v theories/Base/Bytes.vos theories/Base/Winnow.vos theories/Base/WinnowFacts.vos theories/C10/Model.vos theories/C10/Spec.vos
theories/C10/Run.vo theories/C10/Run.glob theories/C10/Run.v.beautified theories/C10/Run.required_vo: theories/C10/Run.v theories/Base/Bytes.vo theories/C10/Model.vo theories/C10/Spec.vo
theories/C10/Run.vio: theories/C10/Run.v theories/Base/Bytes.vio theories/C10/Model.vio theories/C10/Spec.vio
theories/C10/Run.vos theories/C10/Run.vok theories/C10/Run.required_vos: theories/C10/Run.v theories/Base/Bytes.vos theories/C10/Model.vos theories/C10/Spec.vos
theories/C10/Spec.vo theories/C10/Spec.glob theories/C10/Spec.v.beautified theories/C10/Spec.required_vo: theories/C10/Spec.v theories/Base/Bytes.vo
theories/C10/Spec.vio: theories/C10/Spec.v theories/Base/Bytes.vio
theories/C10/Spec.vos theories/C10/Spec.vok theories/C10/Spec.required_vos: theories/C10/Spec.v theories/Base/Bytes.vos
theories/C11/Body.vo theories/C11/Body.glob theories/C11/Body.v.beautified theories/C11/Body.required_vo: theories/C11/Body.v theories/Base/Bytes.vo theories/Base/Res.vo theories/Base/Sig.vo theories/C11/Model.vo
theories/C11/Body.vio: theories/C11/Body.v theories/Base/Bytes.vio theories/Base/Res.vio theories/Base/Sig.vio theories/C11/Model.vio
theories/C11/Body.vos theories/C11/Body.vok theories/C11/Body.required_vos: theories/C11/Body.v theories/Base/Bytes.vos theories/Base/Res.vos theories/Base/Sig.vos theories/C11/Model.vos
theories/C11/Model.vo theories/C11/Model.glob theories/C11/Model.v.beautified theories/C11/Model.required_vo: theories/C11/Model.v theories/Base/Bytes.vo theories/Base/Res.vo theories/Base/Sig.vo theories/C10/Model.vo
theories/C11/Model.vio: theories/C11/Model.v theories/Base/Bytes.vio theories/Base/Res.vio theories/Base/Sig.vio theories/C10/Model.vio
theories/C11/Model.vos theories/C11/Model.vok theories/C11/Model.required_vos: theories/C11/Model.v theories/Base/Bytes.vos theories/Base/Res.vos theories/Base/Sig.vos theories/C10/Model.vos
theories/C11/Run.vo theories/C11/Run.glob theories/C11/Run.v.beautified theories/C11/Run.required_vo: theories/C11/Run.v theories/Base/Bytes.vo theories/Base/Res.vo theories/Base/Sig.vo theories/C10/Model.vo theories/C10/Spec.vo theories/C11/Model.vo theories/C11/Spec.vo theories/C11/Body.vo
theories/C11/Run.vio: theories/C11/Run.v theories/Base/Bytes.vio theories/Base/Res.vio theories/Base/Sig.vio theories/C10/Model.vio theories/C10/Spec.vio theories/C11/Model.vio theories/C11/Spec.vio theories/C11/Body.vio
theories/C11/Run.vos theories/C11/Run.vok theories/C11/Run.required_vos: theories/C11/Run.v theories/Base/Bytes.vos theories/Base/Res.vos theories/Base/Sig.vos theories/C10/Model.vos theories/C10/Spec.vos theories/C11/Model.vos theories/C11/Spec.vos theories/C11/Body.vos
theories/C11/Spec.vo theories/C11/Spec.glob theories/C11/Spec.v.beautified theories/C11/Spec.required_vo: theories/C11/Spec.v theories/Base/Bytes.vo theories/Base/Res.vo theories/Base/Sig.vo theories/C10/Spec.vo theories/C11/Model.vo
theories/C11/Spec.vio: theories/C11/Spec.v theories/Base/Bytes.vio theories/Base/Res.vio theories/Base/Sig.vio theories/C10/Spec.vio theories/C11/Model.vio
theories/C11/Spec.vos theories/C11/Spec.vok theories/C11/Spec.required_vos: theories/C11/Spec.v theories/Base/Bytes.vos theories/Base/Res.vos theories/Base/Sig.vos theories/C10/Spec.vos theories/C11/Model.vos
theories/C14/Model.vo theories/C14/Model.glob theories/C14/Model.v.beautified theories/C14/Model.required_vo: theories/C14/Model.v theories/Base/Bytes.vo theories/Base/Res.vo
theories/C14/Model.vio: theories/C14/Model.v theories/Base/Bytes.vio theories/Base/Res.vio
theories/C14/Model.vos theories/C14/Model.vok theories/C14/Model.required_vos: theories/C14/Model.v theories/Base/Bytes.vos theories/Base/Res.vos
theories/C14/Proofs.vo theories/C14/Proofs.glob theories/C14/Proofs.v.beautified theories/C14/Proofs.required_vo: theories/C14/Proofs.v theories/Base/Bytes.vo theories/Base/Res.vo theories/C14/Model.vo theories/C14/Spec.vo
theories/C14/Proofs.vio: theories/C14/Proofs.v theories/Base/Bytes.vio theories/Base/Res.vio theories/C14/Model.vio theories/C14/Spec.vio
theories/C14/Proofs.vos theories/C14/Proofs.vok theories/C14/Proofs.required_vos: theories/C14/Proofs.v theories/Base/Bytes.vos theories/Base/Res.vos theories/C14/Model.vos theories/C14/Spec.vos
theories/C14/Run.vo theories/C14/Run.glob theories/C14/Run.v.beautified theories/C14/Run.required_vo: theories/C14/Run.v theories/Base/Bytes.vo theories/Base/Res.vo theories/C14/Model.vo theories/C14/Spec.vo
theories/C14/Run.vio: theories/C14/Run.v theories/Base/Bytes.vio theories/Base/Res.vio theories/C14/Model.vio theories/C14/Spec.vio
theories/C14/Run.vos theories/C14/Run.vok theories/C14/Run.required_vos: theories/C14/Run.v theories/Base/Bytes.vos theories/Base/Res.vos theories/C14/Model.vos theories/C14/Spec.vos
theories/C14/Spec.vo theories/C14/Spec.glob theories/C14/Spec.v.beautified theories/C14/Spec.required_vo: theories/C14/Spec.v theories/Base/Bytes.vo theories/Base/Res.vo theories/C14/Model.vo
theories/C14/Spec.vio: theories/C14/Spec.v theories/Base/Bytes.vio theories/Base/Res.vio theories/C14/Model.vio
theories/C14/Spec.vos theories/C14/Spec.vok theories/C14/Spec.required_vos: theories/C14/Spec.v theories/Base/Bytes.vos theories/Base/Res.vos theories/C14/Model.vos
theories/C16/LineFacts.vo theories/C16/LineFacts.glob theories/C16/LineFacts.v.beautified theories/C16/LineFacts.required_vo: theories/C16/LineFacts.v theories/Base/Bytes.vo theories/Base/Res.vo theories/C16/Model.vo
theories/C16/LineFacts.vio: theories/C16/LineFacts.v theories/Base/Bytes.vio theories/Base/Res.vio theories/C16/Model.vio
theories/C16/LineFacts.vos theories/C16/LineFacts.vok theories/C16/LineFacts.required_vos: theories/C16/LineFacts.v theories/Base/Bytes.vos theories/Base/Res.vos theories/C16/Model.vos
theories/C16/Model.vo theories/C16/Model.glob theories/C16/Model.v.beautified theories/C16/Model.required_vo: theories/C16/Model.v theories/Base/Bytes.vo theories/Base/Res.vo
theories/C16/Model.vio: theories/C16/Model.v theories/Base/Bytes.vio theories/Base/Res.vio
theories/C16/Model.vos theories/C16/Model.vok theories/C16/Model.required_vos: theories/C16/Model.v theories/Base/Bytes.vos theories/Base/Res.vos
theories/C16/ParseFacts.vo theories/C16/ParseFacts.glob theories/C16/ParseFacts.v.beautified theories/C16/ParseFacts.required_vo: theories/C16/ParseFacts.v theories/Base/Bytes.vo theories/Base/Res.vo theories/C16/Model.vo theories/C16/Spec.vo theories/C16/LineFacts.vo
theories/C16/ParseFacts.vio: theories/C16/ParseFacts.v theories/Base/Bytes.vio theories/Base/Res.vio theories/C16/Model.vio theories/C16/Spec.vio theories/C16/LineFacts.vio
theories/C16/ParseFacts.vos theories/C16/ParseFacts.vok theories/C16/ParseFacts.required_vos: theories/C16/ParseFacts.v theories/Base/Bytes.vos theories/Base/Res.vos theories/C16/Model.vos theories/C16/Spec.vos theories/C16/LineFacts.vos
theories/C16/Run.vo theories/C16/Run.glob theories/C16/Run.v.beautified theories/C16/Run.required_vo: theories/C16/Run.v theories/Base/Bytes.vo theories/Base/Res.vo theories/C16/Model.vo theories/C16/Wire.vo theories/C16/Spec.vo
theories/C16/Run.vio: theories/C16/Run.v theories/Base/Bytes.vio theories/Base/Res.vio theories/C16/Model.vio theories/C16/Wire.vio theories/C16/Spec.vio
theories/C16/Run.vos theories/C16/Run.vok theories/C16/Run.required_vos: theories/C16/Run.v theories/Base/Bytes.vos theories/Base/Res.vos theories/C16/Model.vos theories/C16/Wire.vos theories/C16/Spec.vos
theories/C16/Spec.vo theories/C16/Spec.glob theories/C16/Spec.v.beautified theories/C16/Spec.required_vo: theories/C16/Spec.v theories/Base/Bytes.vo theories/C16/Model.vo
theories/C16/Spec.vio: theories/C16/Spec.v theories/Base/Bytes.vio theories/C16/Model.vio
theories/C16/Spec.vos theories/C16/Spec.vok theories/C16/Spec.required_vos: theories/C16/Spec.v theories/Base/Bytes.vos theories/C16/Model.vos
theories/C16/SplitProofs.vo theories/C16/SplitProofs.glob theories/C16/SplitProofs.v.beautified theories/C16/SplitProofs.required_vo: theories/C16/SplitProofs.v theories/Base/Bytes.vo theories/Base/Res.vo theories/C16/Model.vo theories/C16/LineFacts.vo
theories/C16/SplitProofs.vio: theories/C16/SplitProofs.v theories/Base/Bytes.vio theories/Base/Res.vio theories/C16/Model.vio theories/C16/LineFacts.vio
theories/C16/SplitProofs.vos theories/C16/SplitProofs.vok theories/C16/SplitProofs.required_vos: theories/C16/SplitProofs.v theories/Base/Bytes.vos theories/Base/Res.vos theories/C16/Model.vos theories/C16/LineFacts.vos
theories/C16/Wire.vo theories/C16/Wire.glob theories/C16/Wire.v.beautified theories/C16/Wire.required_vo: theories/C16/Wire.v theories/Base/Bytes.vo theories/Base/Res.vo theories/C16/Model.vo
theories/C16/Wire.vio: theories/C16/Wire.v theories/Base/Bytes.vio theories/Base/Res.vio theories/C16/Model.vio
theories/C16/Wire.vos theories/C16/Wire.vok theories/C16/Wire.required_vos: theories/C16/Wire.v theories/Base/Bytes.vos theories/Base/Res.vos theories/C16/Model.vos
theories/C17/Model.vo theories/C17/Model.glob theories/C17/Model.v.beautified theories/C17/Model.required_vo: theories/C17/Model.v theories/Base/Bytes.vo theories/Base/Res.vo theories/C16/Model.vo
theories/C17/Model.vio: theories/C17/Model.v theories/Base/Bytes.vio theories/Base/Res.vio theories/C16/Model.vio
theories/C17/Model.vos theories/C17/Model.vok theories/C17/Model.required_vos: theories/C17/Model.v theories/Base/Bytes.vos theories/Base/Res.vos theories/C16/Model.vos
theories/C17/Run.vo theories/C17/Run.glob theories/C17/Run.v.beautified theories/C17/Run.required_vo: theories/C17/Run.v theories/Base/Bytes.vo theories/Base/Res.vo theories/C16/Model.vo theories/C16/Wire.vo theories/C17/Model.vo
theories/C17/Run.vio: theories/C17/Run.v theories/Base/Bytes.vio theories/Base/Res.vio theories/C16/Model.vio theories/C16/Wire.vio theories/C17/Model.vio
theories/C17/Run.vos theories/C17/Run.vok theories/C17/Run.required_vos: theories/C17/Run.v theories/Base/Bytes.vos theories/Base/Res.vos theories/C16/Model.vos theories/C16/Wire.vos theories/C17/Model.vos
theories/C21/Model.vo theories/C21/Model.glob theories/C21/Model.v.beautified theories/C21/Model.required_vo: theories/C21/Model.v theories/Base/Bytes.vo theories/Base/Res.vo theories/C10/Model.vo
theories/C21/Model.vio: theories/C21/Model.v theories/Base/Bytes.vio theories/Base/Res.vio theories/C10/Model.vio
theories/C21/Model.vos theories/C21/Model.vok theories/C21/Model.required_vos: theories/C21/Model.v theories/Base/Bytes.vos theories/Base/Res.vos theories/C10/Model.vos
theories/C21/Proofs.vo theories/C21/Proofs.glob theories/C21/Proofs.v.beautified theories/C21/Proofs.required_vo: theories/C21/Proofs.v theories/Base/Bytes.vo theories/Base/Res.vo theories/Base/WinnowFacts.vo theories/C10/Model.vo theories/C10/Spec.vo theories/C10/Proofs.vo theories/C21/Model.vo theories/C21/Spec.vo
theories/C21/Proofs.vio: theories/C21/Proofs.v theories/Base/Bytes.vio theories/Base/Res.vio theories/Base/WinnowFacts.vio theories/C10/Model.vio theories/C10/Spec.vio theories/C10/Proofs.vio theories/C21/Model.vio theories/C21/Spec.vio
theories/C21/Proofs.vos theories/C21/Proofs.vok theories/C21/Proofs.required_vos: theories/C21/Proofs.v theories/Base/Bytes.vos theories/Base/Res.vos theories/Base/WinnowFacts.vos theories/C10/Model.vos theories/C10/Spec.vos theories/C10/Proofs.vos theories/C21/Model.vos theories/C21/Spec.vos
theories/C21/Run.vo theories/C21/Run.glob theories/C21/Run.v.beautified theories/C21/Run.required_vo: theories/C21/Run.v theories/Base/Bytes.vo theories/Base/Res.vo theories/C21/Model.vo theories/C21/Spec.vo
theories/C21/Run.vio: theories/C21/Run.v theories/Base/Bytes.vio theories/Base/Res.vio theories/C21/Model.vio theories/C21/Spec.vio
theories/C21/Run.vos theories/C21/Run.vok theories/C21/Run.required_vos: theories/C21/Run.v theories/Base/Bytes.vos theories/Base/Res.vos theories/C21/Model.vos theories/C21/Spec.vos
theories/C21/Spec.vo theories/C21/Spec.glob theories/C21/Spec.v.beautified theories/C21/Spec.required_vo: theories/C21/Spec.v theories/Base/Bytes.vo theories/C10/Spec.vo theories/C21/Model.vo
theories/C21/Spec.vio: theories/C21/Spec.v theories/Base/Bytes.vio theories/C10/Spec.vio theories/C21/Model.vio
theories/C21/Spec.vos theories/C21/Spec.vok theories/C21/Spec.required_vos: theories/C21/Spec.v theories/Base/Bytes.vos theories/C10/Spec.vos theories/C21/Model.vos
theories/C22/Facts.vo theories/C22/Facts.glob theories/C22/Facts.v.beautified theories/C22/Facts.required_vo: theories/C22/Facts.v theories/Base/Bytes.vo theories/Base/Res.vo theories/Base/WinnowFacts.vo theories/C10/Model.vo theories/C10/Spec.vo theories/C10/Proofs.vo theories/C21/Model.vo theories/C22/Model.vo theories/C22/Spec.vo
theories/C22/Facts.vio: theories/C22/Facts.v theories/Base/Bytes.vio theories/Base/Res.vio theories/Base/WinnowFacts.vio theories/C10/Model.vio theories/C10/Spec.vio theories/C10/Proofs.vio theories/C21/Model.vio theories/C22/Model.vio theories/C22/Spec.vio
theories/C22/Facts.vos theories/C22/Facts.vok theories/C22/Facts.required_vos: theories/C22/Facts.v theories/Base/Bytes.vos theories/Base/Res.vos theories/Base/WinnowFacts.vos theories/C10/Model.vos theories/C10/Spec.vos theories/C10/Proofs.vos theories/C21/Model.vos theories/C22/Model.vos theories/C22/Spec.vos
theories/C22/Model.vo theories/C22/Model.glob theories/C22/Model.v.beautified theories/C22/Model.required_vo: theories/C22/Model.v theories/Base/Bytes.vo theories/Base/Res.vo theories/C21/Model.vo
theories/C22/Model.vio: theories/C22/Model.v theories/Base/Bytes.vio theories/Base/Res.vio theories/C21/Model.vio
theories/C22/Model.vos theories/C22/Model.vok theories/C22/Model.required_vos: theories/C22/Model.v theories/Base/Bytes.vos theories/Base/Res.vos theories/C21/Model.vos
theories/C22/Proofs.vo theories/C22/Proofs.glob theories/C22/Proofs.v.beautified theories/C22/Proofs.required_vo: theories/C22/Proofs.v theories/Base/Bytes.vo theories/Base/Res.vo theories/Base/WinnowFacts.vo theories/C10/Model.vo theories/C10/Proofs.vo theories/C21/Model.vo theories/C22/Model.vo theories/C22/Spec.vo theories/C22/Facts.vo
theories/C22/Proofs.vio: theories/C22/Proofs.v theories/Base/Bytes.vio theories/Base/Res.vio theories/Base/WinnowFacts.vio theories/C10/Model.vio theories/C10/Proofs.vio theories/C21/Model.vio theories/C22/Model.vio theories/C22/Spec.vio theories/C22/Facts.vio
theories/C22/Proofs.vos theories/C22/Proofs.vok theories/C22/Proofs.required_vos: theories/C22/Proofs.v theories/Base/Bytes.vos theories/Base/Res.vos theories/Base/WinnowFacts.vos theories/C10/Model.vos theories/C10/Proofs.vos theories/C21/Model.vos theories/C22/Model.vos theories/C22/Spec.vos theories/C22/Facts.vos
theories/C22/Run.vo theories/C22/Run.glob theories/C22/Run.v.beautified theories/C22/Run.required_vo: theories/C22/Run.v theories/Base/Bytes.vo theories/Base/Res.vo theories/C21/Model.vo theories/C21/Run.vo theories/C22/Model.vo theories/C22/Spec.vo
theories/C22/Run.vio: theories/C22/Run.v theories/Base/Bytes.vio theories/Base/Res.vio theories/C21/Model.vio theories/C21/Run.vio theories/C22/Model.vio theories/C22/Spec.vio
theories/C22/Run.vos theories/C22/Run.vok theories/C22/Run.required_vos: theories/C22/Run.v theories/Base/Bytes.vos theories/Base/Res.vos theories/C21/Model.vos theories/C21/Run.vos theories/C22/Model.vos theories/C22/Spec.vos
theories/C22/Spec.vo theories/C22/Spec.glob theories/C22/Spec.v.beautified theories/C22/Spec.required_vo: theories/C22/Spec.v theories/Base/Bytes.vo theories/C21/Model.vo
theories/C22/Spec.vio: theories/C22/Spec.v theories/Base/Bytes.vio theories/C21/Model.vio
theories/C22/Spec.vos theories/C22/Spec.vok theories/C22/Spec.required_vos: theories/C22/Spec.v theories/Base/Bytes.vos theories/C21/Model.vos
theories/C23/Codec.vo theories/C23/Codec.glob theories/C23/Codec.v.beautified theories/C23/Codec.required_vo: theories/C23/Codec.v theories/Base/Bytes.vo theories/Base/Res.vo theories/Base/WinnowFacts.vo theories/C23/Dec.vo theories/C23/Model.vo theories/C23/Spec.vo
theories/C23/Codec.vio: theories/C23/Codec.v theories/Base/Bytes.vio theories/Base/Res.vio theories/Base/WinnowFacts.vio theories/C23/Dec.vio theories/C23/Model.vio theories/C23/Spec.vio
theories/C23/Codec.vos theories/C23/Codec.vok theories/C23/Codec.required_vos: theories/C23/Codec.v theories/Base/Bytes.vos theories/Base/Res.vos theories/Base/WinnowFacts.vos theories/C23/Dec.vos theories/C23/Model.vos theories/C23/Spec.vos
theories/C23/Dec.vo theories/C23/Dec.glob theories/C23/Dec.v.beautified theories/C23/Dec.required_vo: theories/C23/Dec.v theories/Base/Bytes.vo
theories/C23/Dec.vio: theories/C23/Dec.v theories/Base/Bytes.vio
theories/C23/Dec.vos theories/C23/Dec.vok theories/C23/Dec.required_vos: theories/C23/Dec.v theories/Base/Bytes.vos
theories/C23/Interp.vo theories/C23/Interp.glob theories/C23/Interp.v.beautified theories/C23/Interp.required_vo: theories/C23/Interp.v theories/Base/Bytes.vo theories/Base/Res.vo theories/Base/WinnowFacts.vo theories/C23/Dec.vo theories/C23/Model.vo theories/C23/Spec.vo theories/C23/Codec.vo theories/C23/Skeleton.vo
theories/C23/Interp.vio: theories/C23/Interp.v theories/Base/Bytes.vio theories/Base/Res.vio theories/Base/WinnowFacts.vio theories/C23/Dec.vio theories/C23/Model.vio theories/C23/Spec.vio theories/C23/Codec.vio theories/C23/Skeleton.vio
theories/C23/Interp.vos theories/C23/Interp.vok theories/C23/Interp.required_vos: theories/C23/Interp.v theories/Base/Bytes.vos theories/Base/Res.vos theories/Base/WinnowFacts.vos theories/C23/Dec.vos theories/C23/Model.vos theories/C23/Spec.vos theories/C23/Codec.vos theories/C23/Skeleton.vos
theories/C23/Known.vo theories/C23/Known.glob theories/C23/Known.v.beautified theories/C23/Known.required_vo: theories/C23/Known.v theories/Base/Bytes.vo theories/Base/Res.vo theories/C23/Dec.vo theories/C23/Model.vo theories/C23/Spec.vo
theories/C23/Known.vio: theories/C23/Known.v theories/Base/Bytes.vio theories/Base/Res.vio theories/C23/Dec.vio theories/C23/Model.vio theories/C23/Spec.vio
theories/C23/Known.vos theories/C23/Known.vok theories/C23/Known.required_vos: theories/C23/Known.v theories/Base/Bytes.vos theories/Base/Res.vos theories/C23/Dec.vos theories/C23/Model.vos theories/C23/Spec.vos
theories/C23/Model.vo theories/C23/Model.glob theories/C23/Model.v.beautified theories/C23/Model.required_vo: theories/C23/Model.v theories/Base/Bytes.vo theories/Base/Res.vo theories/C23/Dec.vo
theories/C23/Model.vio: theories/C23/Model.v theories/Base/Bytes.vio theories/Base/Res.vio theories/C23/Dec.vio
theories/C23/Model.vos theories/C23/Model.vok theories/C23/Model.required_vos: theories/C23/Model.v theories/Base/Bytes.vos theories/Base/Res.vos theories/C23/Dec.vos
theories/C23/Proofs.vo theories/C23/Proofs.glob theories/C23/Proofs.v.beautified theories/C23/Proofs.required_vo: theories/C23/Proofs.v theories/Base/Bytes.vo theories/Base/Res.vo theories/Base/WinnowFacts.vo theories/C23/Dec.vo theories/C23/Model.vo theories/C23/Spec.vo theories/C23/Known.vo theories/C23/Codec.vo theories/C23/Skeleton.vo theories/C23/Interp.vo
theories/C23/Proofs.vio: theories/C23/Proofs.v theories/Base/Bytes.vio theories/Base/Res.vio theories/Base/WinnowFacts.vio theories/C23/Dec.vio theories/C23/Model.vio theories/C23/Spec.vio theories/C23/Known.vio theories/C23/Codec.vio theories/C23/Skeleton.vio theories/C23/Interp.vio
theories/C23/Proofs.vos theories/C23/Proofs.vok theories/C23/Proofs.required_vos: theories/C23/Proofs.v theories/Base/Bytes.vos theories/Base/Res.vos theories/Base/WinnowFacts.vos theories/C23/Dec.vos theories/C23/Model.vos theories/C23/Spec.vos theories/C23/Known.vos theories/C23/Codec.vos theories/C23/Skeleton.vos theories/C23/Interp.vos
theories/C23/Run.vo theories/C23/Run.glob theories/C23/Run.v.beautified theories/C23/Run.required_vo: theories/C23/Run.v theories/Base/Bytes.vo theories/Base/Res.vo theories/C23/Dec.vo theories/C23/Model.vo theories/C23/Spec.vo theories/C23/Known.vo
theories/C23/Run.vio: theories/C23/Run.v theories/Base/Bytes.vio theories/Base/Res.vio theories/C23/Dec.vio theories/C23/Model.vio theories/C23/Spec.vio theories/C23/Known.vio
theories/C23/Run.vos theories/C23/Run.vok theories/C23/Run.required_vos: theories/C23/Run.v theories/Base/Bytes.vos theories/Base/Res.vos theories/C23/Dec.vos theories/C23/Model.vos theories/C23/Spec.vos theories/C23/Known.vos
theories/C23/Skeleton.vo theories/C23/Skeleton.glob theories/C23/Skeleton.v.beautified theories/C23/Skeleton.required_vo: theories/C23/Skeleton.v theories/Base/Bytes.vo theories/Base/Res.vo theories/Base/WinnowFacts.vo theories/C23/Dec.vo theories/C23/Model.vo theories/C23/Spec.vo theories/C23/Codec.vo
theories/C23/Skeleton.vio: theories/C23/Skeleton.v theories/Base/Bytes.vio theories/Base/Res.vio theories/Base/WinnowFacts.vio theories/C23/Dec.vio theories/C23/Model.vio theories/C23/Spec.vio theories/C23/Codec.vio
theories/C23/Skeleton.vos theories/C23/Skeleton.vok theories/C23/Skeleton.required_vos: theories/C23/Skeleton.v theories/Base/Bytes.vos theories/Base/Res.vos theories/Base/WinnowFacts.vos theories/C23/Dec.vos theories/C23/Model.vos theories/C23/Spec.vos theories/C23/Codec.vos
theories/C23/Spec.vo theories/C23/Spec.glob theories/C23/Spec.v.beautified theories/C23/Spec.required_vo: theories/C23/Spec.v theories/Base/Bytes.vo theories/Base/Res.vo theories/C23/Dec.vo theories/C23/Model.vo
theories/C23/Spec.vio: theories/C23/Spec.v theories/Base/Bytes.vio theories/Base/Res.vio theories/C23/Dec.vio theories/C23/Model.vio
theories/C23/Spec.vos theories/C23/Spec.vok theories/C23/Spec.required_vos: theories/C23/Spec.v theories/Base/Bytes.vos theories/Base/Res.vos theories/C23/Dec.vos theories/C23/Model.vos
theories/C24/Facts.vo theories/C24/Facts.glob theories/C24/Facts.v.beautified theories/C24/Facts.required_vo: theories/C24/Facts.v theories/Base/Bytes.vo theories/Base/Res.vo theories/Base/WinnowFacts.vo theories/C24/Ops.vo theories/C24/Model.vo
theories/C24/Facts.vio: theories/C24/Facts.v theories/Base/Bytes.vio theories/Base/Res.vio theories/Base/WinnowFacts.vio theories/C24/Ops.vio theories/C24/Model.vio
theories/C24/Facts.vos theories/C24/Facts.vok theories/C24/Facts.required_vos: theories/C24/Facts.v theories/Base/Bytes.vos theories/Base/Res.vos theories/Base/WinnowFacts.vos theories/C24/Ops.vos theories/C24/Model.vos
theories/C24/Model.vo theories/C24/Model.glob theories/C24/Model.v.beautified theories/C24/Model.required_vo: theories/C24/Model.v theories/Base/Bytes.vo theories/Base/Res.vo theories/C24/Ops.vo
theories/C24/Model.vio: theories/C24/Model.v theories/Base/Bytes.vio theories/Base/Res.vio theories/C24/Ops.vio
theories/C24/Model.vos theories/C24/Model.vok theories/C24/Model.required_vos: theories/C24/Model.v theories/Base/Bytes.vos theories/Base/Res.vos theories/C24/Ops.vos
theories/C24/Ops.vo theories/C24/Ops.glob theories/C24/Ops.v.beautified theories/C24/Ops.required_vo: theories/C24/Ops.v theories/Base/Bytes.vo
theories/C24/Ops.vio: theories/C24/Ops.v theories/Base/Bytes.vio
theories/C24/Ops.vos theories/C24/Ops.vok theories/C24/Ops.required_vos: theories/C24/Ops.v theories/Base/Bytes.vos
theories/C24/Proofs.vo theories/C24/Proofs.glob theories/C24/Proofs.v.beautified theories/C24/Proofs.required_vo: theories/C24/Proofs.v theories/Base/Bytes.vo theories/Base/Res.vo theories/Base/WinnowFacts.vo theories/C24/Ops.vo theories/C24/Model.vo theories/C24/Spec.vo theories/C24/Facts.vo
theories/C24/Proofs.vio: theories/C24/Proofs.v theories/Base/Bytes.vio theories/Base/Res.vio theories/Base/WinnowFacts.vio theories/C24/Ops.vio theories/C24/Model.vio theories/C24/Spec.vio theories/C24/Facts.vio
theories/C24/Proofs.vos theories/C24/Proofs.vok theories/C24/Proofs.required_vos: theories/C24/Proofs.v theories/Base/Bytes.vos theories/Base/Res.vos theories/Base/WinnowFacts.vos theories/C24/Ops.vos theories/C24/Model.vos theories/C24/Spec.vos theories/C24/Facts.vos
theories/C24/Run.vo theories/C24/Run.glob theories/C24/Run.v.beautified theories/C24/Run.required_vo: theories/C24/Run.v theories/Base/Bytes.vo theories/Base/Res.vo theories/C24/Ops.vo theories/C24/Model.vo theories/C24/Spec.vo
theories/C24/Run.vio: theories/C24/Run.v theories/Base/Bytes.vio theories/Base/Res.vio theories/C24/Ops.vio theories/C24/Model.vio theories/C24/Spec.vio
theories/C24/Run.vos theories/C24/Run.vok theories/C24/Run.required_vos: theories/C24/Run.v theories/Base/Bytes.vos theories/Base/Res.vos theories/C24/Ops.vos theories/C24/Model.vos theories/C24/Spec.vos
theories/C24/Spec.vo theories/C24/Spec.glob theories/C24/Spec.v.beautified theories/C24/Spec.required_vo: theories/C24/Spec.v theories/Base/Bytes.vo theories/C24/Ops.vo
theories/C24/Spec.vio: theories/C24/Spec.v theories/Base/Bytes.vio theories/C24/Ops.vio
theories/C24/Spec.vos theories/C24/Spec.vok theories/C24/Spec.required_vos: theories/C24/Spec.v theories/Base/Bytes.vos theories/C24/Ops.vos
theories/C25/Model.vo theories/C25/Model.glob theories/C25/Model.v.beautified theories/C25/Model.required_vo: theories/C25/Model.v theories/Base/Bytes.vo theories/Base/Res.vo theories/C24/Ops.vo theories/C24/Model.vo
theories/C25/Model.vio: theories/C25/Model.v theories/Base/Bytes.vio theories/Base/Res.vio theories/C24/Ops.vio theories/C24/Model.vio
theories/C25/Model.vos theories/C25/Model.vok theories/C25/Model.required_vos: theories/C25/Model.v theories/Base/Bytes.vos theories/Base/Res.vos theories/C24/Ops.vos theories/C24/Model.vos
theories/C25/Run.vo theories/C25/Run.glob theories/C25/Run.v.beautified theories/C25/Run.required_vo: theories/C25/Run.v theories/Base/Bytes.vo theories/Base/Res.vo theories/C24/Ops.vo theories/C24/Model.vo theories/C24/Run.vo theories/C25/Model.vo theories/C25/Spec.vo theories/C25/System.vo
theories/C25/Run.vio: theories/C25/Run.v theories/Base/Bytes.vio theories/Base/Res.vio theories/C24/Ops.vio theories/C24/Model.vio theories/C24/Run.vio theories/C25/Model.vio theories/C25/Spec.vio theories/C25/System.vio
theories/C25/Run.vos theories/C25/Run.vok theories/C25/Run.required_vos: theories/C25/Run.v theories/Base/Bytes.vos theories/Base/Res.vos theories/C24/Ops.vos theories/C24/Model.vos theories/C24/Run.vos theories/C25/Model.vos theories/C25/Spec.vos theories/C25/System.vos
theories/C25/Spec.vo theories/C25/Spec.glob theories/C25/Spec.v.beautified theories/C25/Spec.required_vo: theories/C25/Spec.v theories/Base/Bytes.vo theories/C24/Ops.vo
theories/C25/Spec.vio: theories/C25/Spec.v theories/Base/Bytes.vio theories/C24/Ops.vio
theories/C25/Spec.vos theories/C25/Spec.vok theories/C25/Spec.required_vos: theories/C25/Spec.v theories/Base/Bytes.vos theories/C24/Ops.vos
theories/C25/System.vo theories/C25/System.glob theories/C25/System.v.beautified theories/C25/System.required_vo: theories/C25/System.v theories/Base/Bytes.vo theories/Base/Res.vo theories/C24/Ops.vo theories/C24/Model.vo theories/C25/Model.vo theories/C25/Spec.vo
theories/C25/System.vio: theories/C25/System.v theories/Base/Bytes.vio theories/Base/Res.vio theories/C24/Ops.vio theories/C24/Model.vio theories/C25/Model.vio theories/C25/Spec.vio
theories/C25/System.vos theories/C25/System.vok theories/C25/System.required_vos: theories/C25/System.v theories/Base/Bytes.vos theories/Base/Res.vos theories/C24/Ops.vos theories/C24/Model.vos theories/C25/Model.vos theories/C25/Spec.vos
theories/DBus/De.vo theories/DBus/De.glob theories/DBus/De.v.beautified theories/DBus/De.required_vo: theories/DBus/De.v theories/Base/Bytes.vo theories/Base/Res.vo theories/Base/Sig.vo theories/Base/SigParse.vo theories/Base/Utf8.vo theories/DBus/Val.vo theories/DBus/Spec.vo theories/DBus/Ser.vo
theories/DBus/De.vio: theories/DBus/De.v theories/Base/Bytes.vio theories/Base/Res.vio theories/Base/Sig.vio theories/Base/SigParse.vio theories/Base/Utf8.vio theories/DBus/Val.vio theories/DBus/Spec.vio theories/DBus/Ser.vio
theories/DBus/De.vos theories/DBus/De.vok theories/DBus/De.required_vos: theories/DBus/De.v theories/Base/Bytes.vos theories/Base/Res.vos theories/Base/Sig.vos theories/Base/SigParse.vos theories/Base/Utf8.vos theories/DBus/Val.vos theories/DBus/Spec.vos theories/DBus/Ser.vos
theories/DBus/Run.vo theories/DBus/Run.glob theories/DBus/Run.v.beautified theories/DBus/Run.required_vo: theories/DBus/Run.v theories/Base/Bytes.vo theories/Base/Res.vo theories/Base/Sig.vo theories/Base/SigParse.vo theories/Base/Utf8.vo theories/DBus/Val.vo theories/DBus/Spec.vo theories/DBus/Ser.vo theories/DBus/De.vo
theories/DBus/Run.vio: theories/DBus/Run.v theories/Base/Bytes.vio theories/Base/Res.vio theories/Base/Sig.vio theories/Base/SigParse.vio theories/Base/Utf8.vio theories/DBus/Val.vio theories/DBus/Spec.vio theories/DBus/Ser.vio theories/DBus/De.vio
theories/DBus/Run.vos theories/DBus/Run.vok theories/DBus/Run.required_vos: theories/DBus/Run.v theories/Base/Bytes.vos theories/Base/Res.vos theories/Base/Sig.vos theories/Base/SigParse.vos theories/Base/Utf8.vos theories/DBus/Val.vos theories/DBus/Spec.vos theories/DBus/Ser.vos theories/DBus/De.vos
theories/DBus/Ser.vo theories/DBus/Ser.glob theories/DBus/Ser.v.beautified theories/DBus/Ser.required_vo: theories/DBus/Ser.v theories/Base/Bytes.vo theories/Base/Res.vo theories/Base/Sig.vo theories/Base/SigParse.vo theories/DBus/Val.vo theories/DBus/Spec.vo
theories/DBus/Ser.vio: theories/DBus/Ser.v theories/Base/Bytes.vio theories/Base/Res.vio theories/Base/Sig.vio theories/Base/SigParse.vio theories/DBus/Val.vio theories/DBus/Spec.vio
theories/DBus/Ser.vos theories/DBus/Ser.vok theories/DBus/Ser.required_vos: theories/DBus/Ser.v theories/Base/Bytes.vos theories/Base/Res.vos theories/Base/Sig.vos theories/Base/SigParse.vos theories/DBus/Val.vos theories/DBus/Spec.vos
theories/DBus/Spec.vo theories/DBus/Spec.glob theories/DBus/Spec.v.beautified theories/DBus/Spec.required_vo: theories/DBus/Spec.v theories/Base/Bytes.vo theories/Base/Sig.vo theories/Base/SigParse.vo theories/Base/Utf8.vo theories/DBus/Val.vo
theories/DBus/Spec.vio: theories/DBus/Spec.v theories/Base/Bytes.vio theories/Base/Sig.vio theories/Base/SigParse.vio theories/Base/Utf8.vio theories/DBus/Val.vio
theories/DBus/Spec.vos theories/DBus/Spec.vok theories/DBus/Spec.required_vos: theories/DBus/Spec.v theories/Base/Bytes.vos theories/Base/Sig.vos theories/Base/SigParse.vos theories/Base/Utf8.vos theories/DBus/Val.vos
theories/DBus/Val.vo theories/DBus/Val.glob theories/DBus/Val.v.beautified theories/DBus/Val.required_vo: theories/DBus/Val.v theories/Base/Bytes.vo theories/Base/Sig.vo theories/Base/SigParse.vo
theories/DBus/Val.vio: theories/DBus/Val.v theories/Base/Bytes.vio theories/Base/Sig.vio theories/Base/SigParse.vio
theories/DBus/Val.vos theories/DBus/Val.vok theories/DBus/Val.required_vos: theories/DBus/Val.v theories/Base/Bytes.vos theories/Base/Sig.vos theories/Base/SigParse.vos
theories/Properties/C01.vo theories/Properties/C01.glob theories/Properties/C01.v.beautified theories/Properties/C01.required_vo: theories/Properties/C01.v theories/Base/Bytes.vo theories/DBus/Spec.vo
theories/Properties/C01.vio: theories/Properties/C01.v theories/Base/Bytes.vio theories/DBus/Spec.vio
theories/Properties/C01.vos theories/Properties/C01.vok theories/Properties/C01.required_vos: theories/Properties/C01.v theories/Base/Bytes.vos theories/DBus/Spec.vos
theories/Properties/C02.vo theories/Properties/C02.glob theories/Properties/C02.v.beautified theories/Properties/C02.required_vo: theories/Properties/C02.v theories/Base/Bytes.vo theories/DBus/Spec.vo
theories/Properties/C02.vio: theories/Properties/C02.v theories/Base/Bytes.vio theories/DBus/Spec.vio
theories/Properties/C02.vos theories/Properties/C02.vok theories/Properties/C02.required_vos: theories/Properties/C02.v theories/Base/Bytes.vos theories/DBus/Spec.vos
theories/Properties/C03.vo theories/Properties/C03.glob theories/Properties/C03.v.beautified theories/Properties/C03.required_vo: theories/Properties/C03.v theories/Base/Bytes.vo theories/DBus/Spec.vo
theories/Properties/C03.vio: theories/Properties/C03.v theories/Base/Bytes.vio theories/DBus/Spec.vio
theories/Properties/C03.vos theories/Properties/C03.vok theories/Properties/C03.required_vos: theories/Properties/C03.v theories/Base/Bytes.vos theories/DBus/Spec.vos
theories/Properties/C04.vo theories/Properties/C04.glob theories/Properties/C04.v.beautified theories/Properties/C04.required_vo: theories/Properties/C04.v theories/Base/Bytes.vo theories/DBus/Spec.vo
theories/Properties/C04.vio: theories/Properties/C04.v theories/Base/Bytes.vio theories/DBus/Spec.vio
theories/Properties/C04.vos theories/Properties/C04.vok theories/Properties/C04.required_vos: theories/Properties/C04.v theories/Base/Bytes.vos theories/DBus/Spec.vos
theories/Properties/C06.vo theories/Properties/C06.glob theories/Properties/C06.v.beautified theories/Properties/C06.required_vo: theories/Properties/C06.v theories/Base/Bytes.vo theories/C06/Spec.vo theories/C06/SpecFacts.vo
theories/Properties/C06.vio: theories/Properties/C06.v theories/Base/Bytes.vio theories/C06/Spec.vio theories/C06/SpecFacts.vio
theories/Properties/C06.vos theories/Properties/C06.vok theories/Properties/C06.required_vos: theories/Properties/C06.v theories/Base/Bytes.vos theories/C06/Spec.vos theories/C06/SpecFacts.vos
theories/Properties/C07.vo theories/Properties/C07.glob theories/Properties/C07.v.beautified theories/Properties/C07.required_vo: theories/Properties/C07.v theories/Base/Bytes.vo theories/DBus/Spec.vo
theories/Properties/C07.vio: theories/Properties/C07.v theories/Base/Bytes.vio theories/DBus/Spec.vio
theories/Properties/C07.vos theories/Properties/C07.vok theories/Properties/C07.required_vos: theories/Properties/C07.v theories/Base/Bytes.vos theories/DBus/Spec.vos
theories/Properties/C08.vo theories/Properties/C08.glob theories/Properties/C08.v.beautified theories/Properties/C08.required_vo: theories/Properties/C08.v theories/Base/Bytes.vo theories/Base/Res.vo theories/Base/Sig.vo theories/C08/Model.vo theories/C08/Spec.vo theories/C08/Proofs.vo
theories/Properties/C08.vio: theories/Properties/C08.v theories/Base/Bytes.vio theories/Base/Res.vio theories/Base/Sig.vio theories/C08/Model.vio theories/C08/Spec.vio theories/C08/Proofs.vio
theories/Properties/C08.vos theories/Properties/C08.vok theories/Properties/C08.required_vos: theories/Properties/C08.v theories/Base/Bytes.vos theories/Base/Res.vos theories/Base/Sig.vos theories/C08/Model.vos theories/C08/Spec.vos theories/C08/Proofs.vos
theories/Properties/C10.vo theories/Properties/C10.glob theories/Properties/C10.v.beautified theories/Properties/C10.required_vo: theories/Properties/C10.v theories/Base/Bytes.vo theories/C10/Model.vo theories/C10/Spec.vo theories/C10/Proofs.vo
theories/Properties/C10.vio: theories/Properties/C10.v theories/Base/Bytes.vio theories/C10/Model.vio theories/C10/Spec.vio theories/C10/Proofs.vio
theories/Properties/C10.vos theories/Properties/C10.vok theories/Properties/C10.required_vos: theories/Properties/C10.v theories/Base/Bytes.vos theories/C10/Model.vos theories/C10/Spec.vos theories/C10/Proofs.vos
theories/Properties/C14.vo theories/Properties/C14.glob theories/Properties/C14.v.beautified theories/Properties/C14.required_vo: theories/Properties/C14.v theories/Base/Bytes.vo theories/Base/Res.vo theories/C14/Model.vo theories/C14/Spec.vo theories/C14/Proofs.vo
theories/Properties/C14.vio: theories/Properties/C14.v theories/Base/Bytes.vio theories/Base/Res.vio theories/C14/Model.vio theories/C14/Spec.vio theories/C14/Proofs.vio
theories/Properties/C14.vos theories/Properties/C14.vok theories/Properties/C14.required_vos: theories/Properties/C14.v theories/Base/Bytes.vos theories/Base/Res.vos theories/C14/Model.vos theories/C14/Spec.vos theories/C14/Proofs.vos
theories/Properties/C16.vo theories/Properties/C16.glob theories/Properties/C16.v.beautified theories/Properties/C16.required_vo: theories/Properties/C16.v theories/Base/Bytes.vo theories/C16/Model.vo
theories/Properties/C16.vio: theories/Properties/C16.v theories/Base/Bytes.vio theories/C16/Model.vio
theories/Properties/C16.vos theories/Properties/C16.vok theories/Properties/C16.required_vos: theories/Properties/C16.v theories/Base/Bytes.vos theories/C16/Model.vos
theories/Properties/C17.vo theories/Properties/C17.glob theories/Properties/C17.v.beautified theories/Properties/C17.required_vo: theories/Properties/C17.v theories/Base/Bytes.vo theories/C16/Model.vo theories/C17/Model.vo
theories/Properties/C17.vio: theories/Properties/C17.v theories/Base/Bytes.vio theories/C16/Model.vio theories/C17/Model.vio
theories/Properties/C17.vos theories/Properties/C17.vok theories/Properties/C17.required_vos: theories/Properties/C17.v theories/Base/Bytes.vos theories/C16/Model.vos theories/C17/Model.vos
theories/Properties/C21.vo theories/Properties/C21.glob theories/Properties/C21.v.beautified theories/Properties/C21.required_vo: theories/Properties/C21.v theories/Base/Bytes.vo theories/Base/Res.vo theories/C21/Model.vo theories/C21/Spec.vo theories/C21/Proofs.vo
theories/Properties/C21.vio: theories/Properties/C21.v theories/Base/Bytes.vio theories/Base/Res.vio theories/C21/Model.vio theories/C21/Spec.vio theories/C21/Proofs.vio
theories/Properties/C21.vos theories/Properties/C21.vok theories/Properties/C21.required_vos: theories/Properties/C21.v theories/Base/Bytes.vos theories/Base/Res.vos theories/C21/Model.vos theories/C21/Spec.vos theories/C21/Proofs.vos
theories/Properties/C22.vo theories/Properties/C22.glob theories/Properties/C22.v.beautified theories/Properties/C22.required_vo: theories/Properties/C22.v theories/Base/Bytes.vo theories/Base/Res.vo theories/C21/Model.vo theories/C22/Model.vo theories/C22/Spec.vo theories/C22/Proofs.vo
theories/Properties/C22.vio: theories/Properties/C22.v theories/Base/Bytes.vio theories/Base/Res.vio theories/C21/Model.vio theories/C22/Model.vio theories/C22/Spec.vio theories/C22/Proofs.vio
theories/Properties/C22.vos theories/Properties/C22.vok theories/Properties/C22.required_vos: theories/Properties/C22.v theories/Base/Bytes.vos theories/Base/Res.vos theories/C21/Model.vos theories/C22/Model.vos theories/C22/Spec.vos theories/C22/Proofs.vos
theories/Properties/C23.vo theories/Properties/C23.glob theories/Properties/C23.v.beautified theories/Properties/C23.required_vo: theories/Properties/C23.v theories/Base/Bytes.vo theories/Base/Res.vo theories/C23/Dec.vo theories/C23/Model.vo theories/C23/Spec.vo theories/C23/Known.vo theories/C23/Codec.vo theories/C23/Proofs.vo
theories/Properties/C23.vio: theories/Properties/C23.v theories/Base/Bytes.vio theories/Base/Res.vio theories/C23/Dec.vio theories/C23/Model.vio theories/C23/Spec.vio theories/C23/Known.vio theories/C23/Codec.vio theories/C23/Proofs.vio
theories/Properties/C23.vos theories/Properties/C23.vok theories/Properties/C23.required_vos: theories/Properties/C23.v theories/Base/Bytes.vos theories/Base/Res.vos theories/C23/Dec.vos theories/C23/Model.vos theories/C23/Spec.vos theories/C23/Known.vos theories/C23/Codec.vos theories/C23/Proofs.vos
theories/Properties/C24.vo theories/Properties/C24.glob theories/Properties/C24.v.beautified theories/Properties/C24.required_vo: theories/Properties/C24.v theories/Base/Bytes.vo theories/Base/Res.vo theories/C24/Ops.vo theories/C24/Model.vo theories/C24/Spec.vo theories/C24/Proofs.vo
theories/Properties/C24.vio: theories/Properties/C24.v theories/Base/Bytes.vio theories/Base/Res.vio theories/C24/Ops.vio theories/C24/Model.vio theories/C24/Spec.vio theories/C24/Proofs.vio
theories/Properties/C24.vos theories/Properties/C24.vok theories/Properties/C24.required_vos: theories/Properties/C24.v theories/Base/Bytes.vos theories/Base/Res.vos theories/C24/Ops.vos theories/C24/Model.vos theories/C24/Spec.vos theories/C24/Proofs.vos
theories/Properties/C25.vo theories/Properties/C25.glob theories/Properties/C25.v.beautified theories/Properties/C25.required_vo: theories/Properties/C25.v theories/Base/Bytes.vo theories/C24/Ops.vo theories/C24/Model.vo theories/C25/Model.vo theories/C25/Spec.vo
theories/Properties/C25.vio: theories/Properties/C25.v theories/Base/Bytes.vio theories/C24/Ops.vio theories/C24/Model.vio theories/C25/Model.vio theories/C25/Spec.vio
theories/Properties/C25.vos theories/Properties/C25.vok theories/Properties/C25.required_vos: theories/Properties/C25.v theories/Base/Bytes.vos theories/C24/Ops.vos theories/C24/Model.vos theories/C25/Model.vos theories/C25/Spec.vos
